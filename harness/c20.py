"""C20 - the web API and YAML tests report exactly what the engine computes.

Two kinds of case:

* "api": one generated tax-benefit system (harness/rules.py variables with formulas plus a
  few enum / date / str / float variables defined here), ONE Flask application made by
  openfisca_web_api.app.create_app, and a sequence of requests through its test client:
  POST /calculate and /trace of situations with null slots (some repeated later in the
  sequence, some differing from an earlier one only by input values), GET /parameter/<id>
  and /variable/<id>.
* "yaml": one generated system and a YAML file of tests (three output layouts, every
  value type, absolute / relative margins, expectations equal to / inside / exactly at /
  beyond the margin) run by openfisca_core.tools.test_runner.run_tests; the verdict of
  every test is read by a small pytest plugin (c20_pytest_plugin.py).

The engine values are obtained independently of the code under test: a second instance
of the same system, a new SimulationBuilder and one simulation per requested
(variable, period).  They feed the oracle (the property's text evaluated naively) and the
table-backed operations of the model; when a request only mentions harness/rules.py
variables the model also answers it with the machine of coq/model/Engine.v.
"""
from __future__ import annotations

import contextlib
import copy
import datetime
import fractions
import io
import json
import logging
import os
import pathlib
import shutil
import warnings

import numpy

import rules
from common import Err, cbool, clist, copt, cq, cstr, cz, errkind

from openfisca_core.indexed_enums import Enum
from openfisca_core.periods import DateUnit
from openfisca_core.simulations.simulation_builder import SimulationBuilder
from openfisca_core.variables import Variable

PROP = "C20"
COQ_HEADER = "From Verif Require Import Np Group Param Engine CorrEng Api Corr_C20."
COQ_RUN = "Corr_C20.run"
SHARD = 8
ANCHORS = ["openfisca_web_api/handlers.py", "openfisca_web_api/app.py", "openfisca_web_api/loader/parameters.py",
           "openfisca_web_api/loader/variables.py", "openfisca_core/simulations/simulation_builder.py",
           "openfisca_core/tools/test_runner.py", "openfisca_core/tools/__init__.py",
           "openfisca_core/tracers/flat_trace.py"]
RULE = ("api cases: a generated ranked rule system (3-7 variables: int/float/bool, person/group, dated formulas, "
        "parameters) + 7 fixed extra variables (enum, date, str, float with quarters), one Flask app, 5-8 operations: "
        "POST /calculate and /trace of situations with null slots over every value type and both entities (ids in "
        "non-sorted order, numeric-looking ids, half of the time the same ids for persons and households at different positions, instances without keys, households omitted, non-canonical period keys, "
        "inputs that cover part of an array), the same situation again later, a sibling situation with other input "
        "values, a malformed stream (unknown variable / entity, variable of another entity, invalid period key, slot of "
        "the wrong period unit), GET /parameter/p<k> and /variable/<name>, GET /parameter/<path> of generated marginal rate / "
        "amount scales (2-4 brackets; rates and amounts revised on dates where no threshold moves and vice versa, brackets "
        "appearing, disappearing, stopped scales), of a nested leaf and of the nodes (listing compared with "
        "get_parameters_at_instant on every mentioned date, the day before and 40 days later); yaml cases: one system and a file of 10-14 "
        "tests, each 1-3 expectations in the by-variable / by-entity / by-instance layout, scalar / list / per-period "
        "forms, margins absent / absolute / relative / both / per-variable maps, expected values chosen equal, inside, "
        "exactly at and beyond the margin from the real engine values; 45% of the files are run with the option only_variables or "
        "ignore_variables (a left-out variable must not decide the verdict, a selected one beyond its margin must fail the "
        "test, in every layout; the model, which has no options, is given the output without the left-out variables); a float variable whose engine value is NaN, +inf or "
        "-inf (in YAML tests: must fail whatever is expected; in /calculate and /trace: oracle only); one population of "
        "66000-71000 one-person households per run whose group aggregate is expected by variable and by instance (oracle "
        "only, expected values in closed form).  A case is non-trivial when at least one slot "
        "was filled with a formula result (api) or at least one test passes and one fails (yaml); distinct by JSON text.  "
        "Quick tier: 120 application instances (about 620 POST requests, half of them also answered by the Engine.v "
        "machine, and 130 listing requests) and 56 YAML files (about 670 tests)")
TRUSTED = ["PARTIAL: HTTP (Flask, werkzeug), JSON encoding/decoding, dpath, PyYAML and pytest collection are glue "
           "exercised only by the correspondence run, no theorem is about them",
           "harness/rules.py: compiler from rule-system terms to real Variable subclasses; harness/c20.py: translation of "
           "a situation into the population and id lists given to the model, flattening of JSON documents to depth-4 paths",
           "the engine values in the table-backed model operations come from the harness's own simulations of the real "
           "engine (second system instance, new SimulationBuilder, one simulation per requested variable and period)"]
ASSUMPTIONS = ["float slots: /calculate must give the shortest decimal text that identifies the float32 value (the harness "
               "computes it with numpy.format_float_scientific(unique=True) and hands the model both the exact value and "
               "that text as rationals), /trace the exact value; the oracle asks that the JSON number cast to float32 is the "
               "engine's float32 bit for bit.  Expected YAML numbers are cast to float32 by the harness before the model "
               "sees them (as assert_near does); for values needing 8-9 digits only equal / far-beyond expectations are "
               "generated, so float32 rounding of the difference cannot decide a verdict",
               "generated rule systems are ranked in the sense of C01 (no self-dependence, eternal variables have no formula)",
               "values of rule-language variables are integers below 2^22 (exact in int32 / float32); a case whose rule arithmetic is "
               "not exact (non-integral DIVIDE) is skipped and counted",
               "YAML margins are >= 0; expected dates are full ISO dates; expectations of numeric variables are numbers "
               "(no numexpr strings); bool outputs are compared numerically as 0/1 by the code (modelled; an absolute "
               "margin >= 1 accepts a wrong bool: unclaimed stream)",
               "the inputs of generated YAML tests and the valid-stream situations are accepted by the situation builder "
               "(C12's subject); a malformed situation carries one defect",
               "requests_independent is a theorem about a model whose server keeps no state between requests; that the real "
               "application behaves so is checked by the correspondence (sequences against one app) only"]

SCRATCH = pathlib.Path("/root/scratch")
_AUX: dict = {}
_KEEP: list = []      # tax-benefit systems stay alive: test_runner caches clones by id(baseline)
_RUN = [0]

ENUM_NAMES = ["owner", "tenant", "free"]
PLURAL = {"person": "persons", "group": "households"}
API_PROFILE = {"nvars": (3, 7), "bad": 0.0, "badreq": 0.0, "nparams": 2, "neutral": 0.05, "depth": 2,
               "units": ["month"] * 5 + ["year"] * 4 + ["day"] + ["eternity"] * 2 + ["week"]}


class Inexact(Exception):
    pass


def _key(case):
    return json.dumps(case, sort_keys=True)


# The order of the keys of a situation (and of an output section) is observable: ids are numbered in
# document order, the handlers walk the slots in document order.  Cases are stored and replayed as
# JSON with sorted keys, so every order-sensitive mapping is kept as a list of pairs {"$d": [[k, v]...]}.

def enc(x):
    if isinstance(x, dict):
        if set(x) == {"$date"}:
            return x
        return {"$d": [[k, enc(v)] for k, v in x.items()]}
    if isinstance(x, list):
        return [enc(v) for v in x]
    return x


def dec(x):
    if isinstance(x, dict):
        if set(x) == {"$d"}:
            return {k: dec(v) for k, v in x["$d"]}
        return {k: dec(v) for k, v in x.items()}
    if isinstance(x, list):
        return [dec(v) for v in x]
    return x


def enc_case(case):
    c = dict(case)
    if c["kind"] == "api":
        c["docs"] = [dict(e, doc=enc(e["doc"])) for e in c["docs"]]
    elif c["kind"] == "yaml":
        c["tests"] = [dict(t, input=enc(t["input"]), output=enc(t["output"])) for t in c["tests"]]
    return c


_DEC: dict = {}


def D(case):
    """the case with its ordered mappings as dicts"""
    k = _key(case)
    if k not in _DEC:
        c = dict(case)
        if c["kind"] == "api":
            c["docs"] = [dict(e, doc=dec(e["doc"])) for e in c["docs"]]
        elif c["kind"] == "yaml":
            c["tests"] = [dict(t, input=dec(t["input"]), output=dec(t["output"])) for t in c["tests"]]
        _DEC[k] = c
    return _DEC[k]


# ---------------------------------------------------------------------------------------
# systems
# ---------------------------------------------------------------------------------------

EXTRAS = {
    "xi_p": {"type": "int", "ent": "person", "unit": "month"},
    "xe_p": {"type": "enum", "ent": "person", "unit": "month"},
    "xe_h": {"type": "enum", "ent": "group", "unit": "eternity"},
    "xd_p": {"type": "date", "ent": "person", "unit": "eternity"},
    "xd_h": {"type": "date", "ent": "group", "unit": "year"},
    "xs_p": {"type": "str", "ent": "person", "unit": "year"},
    "xf_h": {"type": "float", "ent": "group", "unit": "month"},
    # float32 values that need 8-9 significant digits (or whose shortest text is not their value)
    "xg_p": {"type": "float", "ent": "person", "unit": "month", "hard": True},
    "xh_p": {"type": "float", "ent": "person", "unit": "month", "hard": True},
    # NaN, +inf, -inf or 2.5 according to xi_p % 4
    "xn_p": {"type": "float", "ent": "person", "unit": "month", "nonfinite": True},
}


SCALE_DATES = ["2000-01-01", "2014-01-01", "2015-07-01", "2016-01-01", "2017-01-01", "2018-07-01", "2019-01-01",
               "2020-01-01"]
SCALE_PATHS = {"taxes/s0": ("s0",), "taxes/sub/s1": ("sub", "s1")}


def gen_scale(rng, kind):
    """A marginal rate or amount scale of 2-4 brackets.  Rates / amounts exist from 2000 on and are revised on
    dates of their own; thresholds move on other dates; later brackets appear after 2000 or disappear (null
    threshold); sometimes the whole scale is stopped.  Thresholds of different brackets never meet."""
    nb = rng.randint(2, 4)
    stop = rng.choice(SCALE_DATES[4:]) if rng.random() < 0.15 else None
    brackets = []
    for k in range(nb):
        def value():
            return rng.randint(1, 15) / 16 if kind == "rate" else rng.randint(0, 40) * 25
        vals = {"2000-01-01": value()}
        for d in rng.sample(SCALE_DATES[1:], rng.randint(0, 3)):
            vals[d] = value()

        def threshold():
            return (0 if k == 0 and rng.random() < 0.7 else k * 1000 + rng.randint(0, 9) * 100)
        first = "2000-01-01" if (k == 0 or rng.random() < 0.6) else rng.choice(SCALE_DATES[1:4])
        ths = {first: threshold()}
        for d in rng.sample([x for x in SCALE_DATES if x > first], rng.randint(0, 2)):
            ths[d] = threshold() if (k == 0 or rng.random() < 0.75) else None
        if stop is not None:
            ths = {d: v for d, v in ths.items() if d < stop}
            ths[stop] = None
            if not any(v is not None for v in ths.values()):
                ths[first if first < stop else "2000-01-01"] = threshold()
        brackets.append({"threshold": sorted(ths.items()), "value": sorted(vals.items())})
    return {"kind": kind, "brackets": [{"threshold": [list(x) for x in b["threshold"]],
                                        "value": [list(x) for x in b["value"]]} for b in brackets]}


def gen_ptree(rng):
    leaf = [[d, rng.choice([rng.randint(-5, 9), None]) if d != "2000-01-01" else rng.randint(0, 5)]
            for d in sorted({"2000-01-01"} | set(rng.sample(SCALE_DATES[1:], rng.randint(0, 3))))]
    return {"s0": gen_scale(rng, "rate"), "s1": gen_scale(rng, rng.choice(["amount", "rate", "amount"])), "q": leaf}


def scale_data(sc):
    key = "rate" if sc["kind"] == "rate" else "amount"
    return {"brackets": [{"threshold": {d: {"value": v} for d, v in b["threshold"]},
                          key: {d: {"value": v} for d, v in b["value"]}} for b in sc["brackets"]]}


def build_tbs(sysj, ptree=None):
    """rules.build_system plus the extra variables (value types the rule language does not have) and, for api
    cases, a nested parameter node taxes = {s0: scale, sub: {s1: scale, q: parameter}}."""
    from openfisca_core.parameters import ParameterNode

    tbs = rules.build_system(sysj, set())
    if ptree is not None:
        data = {"s0": scale_data(ptree["s0"]),
                "sub": {"s1": scale_data(ptree["s1"]), "q": {"values": {d: {"value": v} for d, v in ptree["q"]}}}}
        tbs.parameters.add_child("taxes", ParameterNode("taxes", data=data))
        tbs._parameters_at_instant_cache = {}
    person = tbs.person_entity
    household = tbs.group_entities[0]

    class Housing(Enum):
        owner = "Owner"
        tenant = "Tenant"
        free = "Free"

    class xi_p(Variable):
        value_type = int
        default_value = 1
        entity = person
        definition_period = DateUnit.MONTH

    class xe_p(Variable):
        value_type = Enum
        possible_values = Housing
        default_value = Housing.tenant
        entity = person
        definition_period = DateUnit.MONTH

        def formula(population, period, parameters):
            k = population("xi_p", period) % 3
            return numpy.select([k == 0, k == 1], [Housing.owner, Housing.tenant], Housing.free)

    class xe_h(Variable):
        value_type = Enum
        possible_values = Housing
        default_value = Housing.free
        entity = household
        definition_period = DateUnit.ETERNITY

    class xd_p(Variable):
        value_type = datetime.date
        default_value = datetime.date(1970, 1, 1)
        entity = person
        definition_period = DateUnit.ETERNITY

    class xd_h(Variable):
        value_type = datetime.date
        default_value = datetime.date(2000, 2, 29)
        entity = household
        definition_period = DateUnit.YEAR

        def formula(population, period, parameters):
            start = numpy.datetime64(period.start.date, "D")
            return start + population.nb_persons().astype("timedelta64[D]")

    class xs_p(Variable):
        value_type = str
        default_value = "abc"
        entity = person
        definition_period = DateUnit.YEAR

    class xf_h(Variable):
        value_type = float
        default_value = 0.5
        entity = household
        definition_period = DateUnit.MONTH

        def formula(population, period, parameters):
            return population.sum(population.members("xi_p", period)) * 0.25 + 0.75

    class xg_p(Variable):
        value_type = float
        default_value = 0.1
        entity = person
        definition_period = DateUnit.MONTH

    class xh_p(Variable):
        value_type = float
        entity = person
        definition_period = DateUnit.MONTH

        def formula(population, period, parameters):
            return population("xg_p", period) * 1.1 / 3 + population("xi_p", period) / 7

    class xn_p(Variable):
        value_type = float
        entity = person
        definition_period = DateUnit.MONTH

        def formula(population, period, parameters):
            k = population("xi_p", period) % 4
            num = numpy.select([k == 0, k == 1, k == 2], [0.0, 1.0, -1.0], 2.5).astype(numpy.float32)
            den = numpy.where(k == 3, 1.0, 0.0).astype(numpy.float32)
            with numpy.errstate(all="ignore"):
                return num / den          # 0/0, 1/0, -1/0, 2.5

    for cls in (xi_p, xe_p, xe_h, xd_p, xd_h, xs_p, xf_h, xg_p, xh_p, xn_p):
        tbs.add_variable(cls)
    _KEEP.append(tbs)
    return tbs


def var_table(sysj):
    """name -> {"type", "ent", "unit", "rule": index or None}"""
    t = {}
    for i, v in enumerate(sysj["vars"]):
        t[f"v{i}"] = {"type": v["type"], "ent": v["ent"], "unit": v["unit"], "rule": i, "formulas": bool(v["formulas"])}
    for name, x in EXTRAS.items():
        t[name] = dict(x, rule=None)
    return t


# ---------------------------------------------------------------------------------------
# engine values, independently of the code under test
# ---------------------------------------------------------------------------------------

def to_raws(variable, arr):
    vt = variable.value_type
    out = []
    for x in numpy.asarray(arr).tolist() if vt not in (datetime.date,) else list(numpy.asarray(arr)):
        if vt == Enum:
            out.append(["z", int(x)])
        elif vt == datetime.date:
            d = x.astype("datetime64[D]").astype(object)
            out.append(["d", [d.year, d.month, d.day]])
        elif vt == str:
            out.append(["s", str(x)])
        elif vt == bool:
            out.append(["z", int(bool(x))])
        elif vt == int:
            if abs(int(x)) >= rules.EXACT_LIMIT:
                raise Inexact(repr(x))
            out.append(["z", int(x)])
        else:
            if x != x or x in (float("inf"), float("-inf")):
                out.append(["n", "nan" if x != x else ("inf" if x > 0 else "-inf")])
                continue
            x32 = numpy.float32(x)
            f = fractions.Fraction(float(x32))                      # the float32 value, exactly
            # the shortest decimal text that identifies the float32, read back as a double
            g = fractions.Fraction(float(numpy.format_float_scientific(x32, unique=True)))
            if abs(f) >= 2 ** 40:
                raise Inexact(repr(x))
            if f != g:
                out.append(["f", [f.numerator, f.denominator], [g.numerator, g.denominator]])
            else:
                out.append(["z", int(f)] if f.denominator == 1 else ["q", [f.numerator, f.denominator]])
    return out


def engine_values(tbs, situation, cells, default_period=None):
    """{(variable, period key): list of raw | Err} - one new simulation per cell."""
    out = {}
    for v, pk in cells:
        if (v, pk) in out:
            continue
        try:
            sb = SimulationBuilder()
            if default_period is not None:
                sb.set_default_period(default_period)
                sim = sb.build_from_dict(tbs, copy.deepcopy(situation))
            else:
                sim = sb.build_from_entities(tbs, copy.deepcopy(situation))
            arr = sim.calculate(v, pk)
            out[(v, pk)] = to_raws(tbs.get_variable(v), arr)
        except (Inexact, rules.Inexact):
            # (rules.py formulas raise rules.Inexact for a DIVIDE dependency that is not exact: the case is skipped)
            raise Inexact("inexact rule-language arithmetic")
        except Exception as e:  # noqa: BLE001
            out[(v, pk)] = Err(errkind(e), f"{type(e).__name__}: {e}"[:160])
    return out


def render_py(vinfo, raw):
    """the JSON value the property asks for: the engine's value in the variable's type"""
    if raw[0] == "n":
        return float(raw[1])
    if raw[0] == "f":
        return float(fractions.Fraction(*raw[1]))       # the float32 value (compared as float32, see [same])
    tag, x = raw
    t = vinfo["type"]
    if t == "enum":
        return ENUM_NAMES[x]
    if t == "date":
        return datetime.date(*x).isoformat()
    if t == "str":
        return x
    if t == "bool":
        return bool(x)
    if t == "int":
        return int(x)
    return float(fractions.Fraction(*x)) if tag == "q" else float(x)


def same_f32(a, b):
    """a float is the engine's float32 value when, cast to float32, it equals it: the same float32 (so 0.0 and
    -0.0, which are equal, both stand for a zero), or NaN for NaN"""
    x, y = numpy.float32(a), numpy.float32(b)
    return bool(x == y) or bool(x != x and y != y)


def same(a, b):
    """JSON equality that tells bool from int and int from float"""
    if isinstance(a, dict) and isinstance(b, dict):
        return list(sorted(a)) == list(sorted(b)) and all(same(a[k], b[k]) for k in a)
    if isinstance(a, list) and isinstance(b, list):
        return len(a) == len(b) and all(same(x, y) for x, y in zip(a, b))
    if isinstance(a, float) and isinstance(b, float):
        return same_f32(a, b)
    return type(a) is type(b) and a == b


# ---------------------------------------------------------------------------------------
# JSON documents as depth-4 paths
# ---------------------------------------------------------------------------------------

def flatten(doc):
    out = []
    for pl, insts in doc.items():
        if not isinstance(insts, dict):
            continue
        for iid, inst in insts.items():
            if not isinstance(inst, dict):
                continue
            for k, sub in inst.items():
                if isinstance(sub, dict):
                    for pk, leaf in sub.items():
                        out.append([pl, str(iid), k, str(pk), leaf])
                elif isinstance(sub, list):
                    for i, leaf in enumerate(sub):
                        out.append([pl, str(iid), k, str(i), leaf])
    return out


def leaf_obs(x):
    if isinstance(x, float):
        if x != x or x in (float("inf"), float("-inf")):
            return x                     # (such responses are judged by the oracle only)
        return fractions.Fraction(x)
    if isinstance(x, (dict, list)):
        return "<nested>"
    return x


def response_paths(request_flat, body):
    """paths of the response in the order of the request's, then the others sorted"""
    got = {tuple(e[:4]): e[4] for e in flatten(body)}
    out = []
    for e in request_flat:
        k = tuple(e[:4])
        if k in got:
            out.append(list(k) + [leaf_obs(got.pop(k))])
    for k in sorted(got):
        out.append(list(k) + [leaf_obs(got[k])])
    return out


# ---------------------------------------------------------------------------------------
# generation: situations
# ---------------------------------------------------------------------------------------

ID_POOL_P = ["bob", "alice", "Zoe", "p1", "x9", "10", "carl", "p 2"]
ID_POOL_H = ["h1", "casa", "7", "Home", "h0", "b"]


def period_text(p):
    return "".join(str(rules.mk_period(p)))       # a plain str (Period.__str__ returns a subclass)


def gen_cells(rng, vt, year, dense=0.7, extras=0.35):
    """(variable, period key) pairs, each period valid for the variable"""
    cells = []
    for name, x in vt.items():
        if rng.random() > (dense if x["rule"] is not None else extras):
            continue
        for _ in range(1 if rng.random() < 0.7 else 2):
            if x["unit"] == "eternity":
                # an eternal variable with a formula cannot be computed for ETERNITY itself (the engine
                # asks for the formula in force at the start of the period): mostly dated keys then
                pk = rng.choice(["ETERNITY", "ETERNITY", "eternity", str(year), f"{year}-03"] if not x.get("formulas")
                                else ["ETERNITY", str(year), str(year), f"{year}-03", f"{year}-03"])
            else:
                p = rules.gen_period(rng, x["unit"], year=rng.choice([year, year, year + 1]))
                pk = period_text(p)
                if x["unit"] == "month" and rng.random() < 0.06:
                    pk = "month:" + pk
                if x["unit"] == "year" and rng.random() < 0.06:
                    pk = "year:" + pk
            if (name, pk) not in cells:
                cells.append((name, pk))
    return cells


def input_value(rng, x):
    t = x["type"]
    if t == "bool":
        return rng.random() < 0.5
    if t == "int":
        return rng.randint(-20, 100)
    if t == "float" and x.get("hard"):
        return rng.choice([18518.517578125, 2516582.25, 1234567.875, 0.1, 16777215.0, 33333.332, 0.7, 1e-3,
                           123456.789, 8388607.5, -4096.0009765625, 3.1415927, 99999.99, 5, 2.5])
    if t == "float":
        if x["rule"] is not None:
            z = rng.randint(-20, 100)
            return float(z) if rng.random() < 0.5 else z
        return rng.randint(-40, 80) / 4
    if t == "enum":
        return rng.choice(ENUM_NAMES)
    if t == "date":
        return datetime.date(rng.choice([1970, 1980, 2000, 2018]), rng.choice([1, 2, 12]), rng.choice([1, 15, 28])).isoformat()
    return rng.choice(["xyz", "abc", "", "12", "a b", "Owner"])


def gen_population(rng):
    """ids of persons and households.  Half of the time the two entity kinds SHARE ids (numeric-looking
    "1", "2", ... or the same names) at different positions: an index remembered by id alone, or looked up in
    the wrong population, then selects another instance's value."""
    pop = rules.gen_pop(rng, 4)
    n = len(pop["ids"])
    count = pop["count"]
    r = rng.random()
    if r < 0.3:
        pool = [str(k) for k in range(1, max(n, count) + 2)]
        pids = rng.sample(pool, n)
        hids = rng.sample(pool, count)
    elif r < 0.5:
        pids = rng.sample(ID_POOL_P, n)
        pool = list(reversed(pids)) + rng.sample(ID_POOL_H, 3)
        hids = []
        for k in range(count):
            # the household at position k takes the id of a person at another position when there is one
            cands = [x for j, x in enumerate(pids) if j != k and x not in hids] or [x for x in pool if x not in hids]
            hids.append(rng.choice(cands) if rng.random() < 0.8 else rng.choice([x for x in pool if x not in hids]))
    else:
        pids = rng.sample(ID_POOL_P, n)
        hids = rng.sample(ID_POOL_H, count)
    return pop, pids, hids


def gen_situation(rng, vt, pop, pids, hids, year, p_null, p_input, with_groups=True):
    """A situation in the entities form; returns (doc, number of null slots)."""
    # half of the situations only mention rule-language variables (the model then also computes
    # the values itself, on the machine of Engine.v)
    cells = gen_cells(rng, vt, year, extras=rng.choice([0.0, 0.35]))
    persons = {pid: {} for pid in pids}
    households = {}
    for g, hid in enumerate(hids):
        h = {}
        par = [pids[j] for j in range(len(pids)) if pop["ids"][j] == g and pop["roles"][j] == 0]
        chi = [pids[j] for j in range(len(pids)) if pop["ids"][j] == g and pop["roles"][j] == 1]
        if par or rng.random() < 0.5:
            h["parents"] = par
        if chi or rng.random() < 0.3:
            h["children"] = chi
        hea = [pids[j] for j in range(len(pids)) if pop["ids"][j] == g and pop["roles"][j] == 2]
        if hea or rng.random() < 0.2:
            h["heads"] = hea
        households[hid] = h
    nulls = 0
    for name, pk in cells:
        x = vt[name]
        if x["ent"] == "group" and not with_groups:
            continue
        target = persons if x["ent"] == "person" else households
        for iid in target:
            r = rng.random()
            if r < p_null:
                target[iid].setdefault(name, {})[pk] = None
                nulls += 1
            elif r < p_null + p_input:
                target[iid].setdefault(name, {})[pk] = input_value(rng, x)
    if nulls == 0:
        # at least one slot: the first person variable with a formula, else any person variable
        cands = [n for n, x in vt.items() if x["ent"] == "person" and x["unit"] != "eternity"]
        name = rng.choice(cands)
        pk = period_text(rules.gen_period(rng, vt[name]["unit"], year=year))
        persons[pids[0]].setdefault(name, {})[pk] = None
        nulls = 1
    doc = {"persons": persons}
    if with_groups:
        if rng.random() < 0.25:
            doc = {"households": households, "persons": persons}
        else:
            doc["households"] = households
    return doc, nulls


def sibling(rng, doc, vt):
    """the same situation with other input values (a stale value would show)"""
    d = copy.deepcopy(doc)
    changed = 0
    for pl, insts in d.items():
        for iid, inst in insts.items():
            for k, sub in inst.items():
                if isinstance(sub, dict) and k in vt:
                    for pk, leaf in sub.items():
                        if leaf is not None and rng.random() < 0.8:
                            new = input_value(rng, vt[k])
                            if not same(new, leaf):
                                sub[pk] = new
                                changed += 1
    return d if changed else None


def add_defect(rng, doc, vt, year):
    """one defect; returns (doc, expected status)"""
    d = copy.deepcopy(doc)
    pid = next(iter(d["persons"]))
    kind = rng.choice(["unknown_var", "unknown_entity", "wrong_entity", "bad_period", "wrong_unit", "wrong_unit"])
    if kind == "unknown_var":
        d["persons"][pid]["ghost"] = {str(year): None}
        return d, 404, kind
    if kind == "unknown_entity":
        d["dogs"] = {"rex": {"v0": {str(year): None}}}
        return d, 400, kind
    if kind == "wrong_entity":
        gv = [n for n, x in vt.items() if x["ent"] == "group"]
        if gv:
            d["persons"][pid][rng.choice(gv)] = {str(year): None}
            return d, 400, kind
        kind = "bad_period"
    if kind == "bad_period":
        pv = [n for n, x in vt.items() if x["ent"] == "person"]
        d["persons"][pid].setdefault(rng.choice(pv), {})[rng.choice(["foo", f"{year}-13", "month:2018", ""])] = None
        return d, 400, kind
    cands = [n for n, x in vt.items() if x["ent"] == "person" and x["unit"] in ("month", "year", "day")]
    name = rng.choice(cands)
    other = {"month": str(year), "year": f"{year}-02", "day": f"{year}-02"}[vt[name]["unit"]]
    # nothing else of that variable may be an input of the wrong unit: only a null slot
    d["persons"][pid].setdefault(name, {})[other] = None
    return d, 500, "wrong_unit"


def default_pop(n):
    return {"count": n, "ids": list(range(n)), "roles": [0] * n}


def gen_sys(rng):
    sysj = rules.gen_system(rng, API_PROFILE)
    for v in sysj["vars"]:
        v.pop("divisible", None)
        if v["unit"] == "eternity":
            # C01's [ranked]: eternal variables have no formula.  (An eternal variable with dated formulas has one
            # cache slot for all periods: what a later request reads then depends on which period was asked first
            # in the same simulation - engine behaviour, not this property's subject.)
            v["formulas"] = []
            v["end"] = None
    return sysj


def gen_api_case(rng):
    sysj = gen_sys(rng)
    vt = var_table(sysj)
    docs = []
    ops = []
    year = rng.choice(rules.BASE_YEARS)
    nops = rng.randint(5, 8)
    while len(ops) < nops:
        r = rng.random()
        if r < 0.07 and sysj["params"]:
            ops.append(["parameter", rng.randrange(len(sysj["params"]))])
            continue
        if r < 0.18:
            ops.append(rng.choice([["scale", "taxes/s0"], ["scale", "taxes/sub/s1"], ["scale", "taxes/s0"],
                                   ["pleaf", "taxes/sub/q"], ["pnode", rng.choice(["taxes", "taxes/sub"])]]))
            continue
        if r < 0.27:
            # listings of variables with an end date or several dated formulas are asked for more often
            names = [n for n, x in vt.items() for _ in range(
                1 if x["rule"] is None else 1 + 4 * bool(sysj["vars"][x["rule"]]["end"]) + len(sysj["vars"][x["rule"]]["formulas"]))]
            ops.append(["variable", rng.choice(names)])
            continue
        if docs and r < 0.42:
            k = rng.randrange(len(docs))       # the same situation again
            ops.append([rng.choice(["calculate", "calculate", "trace"]), k])
            continue
        if docs and r < 0.55:
            base = docs[rng.randrange(len(docs))]
            if base["expect"] == 200:
                s = sibling(rng, base["doc"], vt)
                if s is not None:
                    docs.append(dict(base, doc=s))
                    ops.append(["calculate", len(docs) - 1])
                    continue
        pop, pids, hids = gen_population(rng)
        with_groups = rng.random() < 0.85
        doc, _ = gen_situation(rng, vt, pop, pids, hids, year, p_null=rng.choice([0.3, 0.5, 0.8]),
                               p_input=rng.choice([0.2, 0.4, 0.6]), with_groups=with_groups)
        entry = {"doc": doc, "pop": pop if with_groups else default_pop(len(pids)), "pids": pids,
                 "hids": hids if with_groups else list(pids), "expect": 200, "defect": None}
        if rng.random() < 0.12:
            entry["doc"], entry["expect"], entry["defect"] = add_defect(rng, doc, vt, year)
        docs.append(entry)
        ops.append(["calculate", len(docs) - 1])
        if rng.random() < 0.45:
            ops.append(["trace", len(docs) - 1])
    return enc_case({"kind": "api", "sys": sysj, "ptree": gen_ptree(rng), "docs": docs, "ops": ops[:nops + 1]})


# ---------------------------------------------------------------------------------------
# generation: YAML tests
# ---------------------------------------------------------------------------------------

def fr(raw):
    if raw[0] == "f":
        return fractions.Fraction(*raw[1])
    tag, x = raw
    return fractions.Fraction(*x) if tag == "q" else fractions.Fraction(x)


def f32(x):
    """a number as assert_near sees it: cast to float32"""
    return fractions.Fraction(float(numpy.float32(float(x))))


def num_json(f):
    """a Fraction as the YAML/JSON number: int when integral"""
    return int(f) if f.denominator == 1 else float(f)


def margin_lookup(m, name):
    if m is None:
        return None
    if isinstance(m, dict):
        return m[name] if name in m else m["default"]
    return m


def effective_margins(test, name):
    am = margin_lookup(test.get("absolute_error_margin"), name)
    rm = margin_lookup(test.get("relative_error_margin"), name)
    if am is None and rm is None:
        am = 0
    return (None if am is None else fractions.Fraction(am)), (None if rm is None else fractions.Fraction(rm))


def within(v, t, am, rm):
    d = abs(t - v)
    return (am is None or d <= am) and (rm is None or d <= abs(rm * t))


def position(v, t, am, rm):
    """equal / inside / at / beyond, for the histogram"""
    d = abs(t - v)
    if d == 0:
        return "equal"
    if not within(v, t, am, rm):
        return "beyond"
    if (am is not None and d == am) or (rm is not None and d == abs(rm * t)):
        return "at"
    return "inside"


def candidates(v, am, rm):
    q = fractions.Fraction(1, 4)
    c = [v, v + 1, v - q, v + q, 2 * v, 4 * v, v * fractions.Fraction(3, 2), v * fractions.Fraction(5, 4), -v]
    if am is not None:
        c += [v + am, v - am, v + am / 2, v - am / 2, v + am + q, v - am - q, v + am + 1]
    if v.denominator == 1 and int(v) % 3 == 0:
        c.append(v * fractions.Fraction(4, 3))
    return [t for t in c if t.denominator <= 16 and abs(t) < 2 ** 20]


def pick_expected(rng, vinfo, raw, am, rm, want):
    """an expected YAML value for one element and the position it really has"""
    t = vinfo["type"]
    if raw[0] == "n":
        # the engine's value is NaN or infinite: no finite expectation is within any margin of it (and the runner
        # also refuses .nan / .inf: the difference is NaN).  Non-finite expectations only without a relative margin.
        if rm is None and rng.random() < 0.3:
            return float(rng.choice([raw[1], "nan"])), "nonfinite"
        return rng.choice([0, 2.5, -1, 1000000.0, 1]), "nonfinite"
    if t in ("int", "float", "bool"):
        v = fr(raw)
        if t == "bool":
            if want in ("equal", "inside", "at"):
                return bool(v), "equal"
            return (not bool(v)), ("beyond" if not within(v, 1 - v, am, rm) else "at")
        if raw[0] == "f" or v.denominator > 16 or abs(v) >= 2 ** 20:
            # a value that needs all the digits of a float32: its shortest text (equal after the cast to float32),
            # or a value far beyond every margin (no rounding of the float32 arithmetic can matter)
            if want == "beyond":
                c = float(f32(-3 * v - 1000))
                return c, position(v, f32(c), am, rm)
            c = float(fractions.Fraction(*raw[2])) if raw[0] == "f" else float(v)
            return (int(c) if c == int(c) and abs(c) < 2 ** 24 else c), position(v, f32(c), am, rm)
        cs = candidates(v, am, rm)
        good = [c for c in cs if position(v, c, am, rm) == want]
        c = rng.choice(good) if good else rng.choice(cs)
        return num_json(c), position(v, c, am, rm)
    if t == "enum":
        if want == "beyond":
            return rng.choice([n for n in ENUM_NAMES if n != ENUM_NAMES[raw[1]]]), "beyond"
        return ENUM_NAMES[raw[1]], "equal"
    if t == "date":
        d = datetime.date(*raw[1])
        if want == "beyond":
            d = d + datetime.timedelta(days=rng.choice([1, -1, 365]))
        s = d.isoformat()
        return ({"$date": s} if rng.random() < 0.5 else s), ("beyond" if want == "beyond" else "equal")
    s = raw[1]
    if want == "beyond":
        return rng.choice([x for x in ["xyz", "abc", "abd", "ab", "12"] if x != s]), "beyond"
    if s.lstrip("-").isdigit() and s == str(int(s)) and rng.random() < 0.5:
        return int(s), "equal"
    return s, "equal"


def gen_margins(rng, names):
    """(absolute, relative) as written in the test"""
    mode = rng.choice(["none", "none", "abs", "abs", "rel", "rel", "both", "absmap", "relmap"])
    A = [0, 0.25, 0.5, 1, 2, 3]
    R = [0.5, 0.5, 0.25, 0.125, 1]
    if mode == "none":
        return None, None
    if mode == "abs":
        return rng.choice(A), None
    if mode == "rel":
        return None, rng.choice(R)
    if mode == "both":
        return rng.choice(A), rng.choice(R)
    m = {"default": rng.choice([None, rng.choice(A if mode == "absmap" else R)])}
    for n in names:
        if rng.random() < 0.6:
            m[n] = rng.choice(A if mode == "absmap" else R)
    return (m, None) if mode == "absmap" else (None, m)


def full_inputs(rng, vt, pop, pids, hids, year):
    """a situation without null slots: inputs for some variables, everything else computed"""
    persons = {pid: {} for pid in pids}
    households = {}
    for g, hid in enumerate(hids):
        h = {}
        par = [pids[j] for j in range(len(pids)) if pop["ids"][j] == g and pop["roles"][j] == 0]
        chi = [pids[j] for j in range(len(pids)) if pop["ids"][j] == g and pop["roles"][j] == 1]
        if par:
            h["parents"] = par
        if chi:
            h["children"] = chi
        hea = [pids[j] for j in range(len(pids)) if pop["ids"][j] == g and pop["roles"][j] == 2]
        if hea:
            h["heads"] = hea
        households[hid] = h
    for name, pk in gen_cells(rng, vt, year, dense=0.5):
        x = vt[name]
        target = persons if x["ent"] == "person" else households
        for iid in target:
            if rng.random() < 0.7:
                target[iid].setdefault(name, {})[pk] = input_value(rng, x)
    return {"persons": persons, "households": households}


def gen_yaml_case(rng):
    sysj = gen_sys(rng)
    vt = var_table(sysj)
    with warnings.catch_warnings():
        warnings.simplefilter("ignore")
        tbs = build_tbs(sysj)
        tests = []
        ntests = rng.randint(10, 14)
        guard = 0
        while len(tests) < ntests and guard < 60:
            guard += 1
            t = gen_yaml_test(rng, sysj, vt, tbs, len(tests))
            if t is not None:
                tests.append(t)
    return enc_case({"kind": "yaml", "sys": sysj, "tests": tests, "options": gen_options(rng, tests, vt)})


def gen_options(rng, tests, vt):
    """options of the run (run_tests / openfisca test): none, only_variables or ignore_variables, chosen among the
    variables the outputs mention, often one whose expectation is beyond its margin"""
    r = rng.random()
    if r < 0.55:
        return {}
    mentioned, beyond = [], []
    for t in tests:
        for name, _pk, _iid, _target in expectations(t, vt):
            if name not in mentioned:
                mentioned.append(name)
        for name, tag in zip(t.get("cells", []), t.get("tags", [])):
            if ("beyond" in tag or "nonfinite" in tag) and name not in beyond:
                beyond.append(name)
    if not mentioned:
        return {}
    k = rng.randint(1, min(3, len(mentioned)))
    pool = [n for n in mentioned if n in beyond] * 2 + mentioned
    chosen = []
    while len(chosen) < k:
        n = rng.choice(pool)
        if n not in chosen:
            chosen.append(n)
    if rng.random() < 0.1:
        chosen = []                   # only_variables: [] checks nothing, ignore_variables: [] ignores nothing
    return {"only_variables": chosen} if r < 0.8 else {"ignore_variables": chosen}


def ignored(options, name):
    """YamlItem.should_ignore_variable"""
    only, ign = options.get("only_variables"), options.get("ignore_variables")
    return (ign is not None and name in ign) or (only is not None and name not in only)


def gen_yaml_test(rng, sysj, vt, tbs, k):
    year = rng.choice(rules.BASE_YEARS)
    pop, pids, hids = gen_population(rng)
    situation = full_inputs(rng, vt, pop, pids, hids, year)
    period = rng.choice([str(year), str(year), f"{year}-01", f"{year}-03", year])
    # the expectations: 1-3 cells, engine values from a simulation of our own
    names = list(vt)
    rng.shuffle(names)
    cells = []
    for name in names[:rng.randint(1, 3)]:
        x = vt[name]
        if x["unit"] == "eternity":
            pk = rng.choice(["ETERNITY", str(period)]) if not x.get("formulas") else str(period)
        elif rng.random() < 0.05:
            pk = {"month": str(year), "year": f"{year}-02"}.get(x["unit"], str(year))     # wrong unit: an error
        else:
            pk = period_text(rules.gen_period(rng, x["unit"], year=year))
        cells.append((name, pk))
    try:
        values = engine_values(tbs, situation, cells, default_period=period)
    except Inexact:
        return None
    abs_m, rel_m = gen_margins(rng, [c[0] for c in cells])
    test = {"name": f"t{k}", "period": period, "input": situation, "output": {}}
    if abs_m is not None:
        test["absolute_error_margin"] = abs_m
    if rel_m is not None:
        test["relative_error_margin"] = rel_m
    tags = []
    output = test["output"]
    for name, pk in cells:
        x = vt[name]
        arr = values[(name, pk)]
        ids = pids if x["ent"] == "person" else hids
        am, rm = effective_margins(test, name)
        layout = rng.choice(["variable", "entity", "instance"])
        want = rng.choice(["equal", "inside", "at", "at", "beyond", "equal", "at"])
        if isinstance(arr, Err):
            exp = [0] * len(ids)
            got = ["error"] * len(ids)
        else:
            hot = rng.randrange(len(arr))
            exp, got = [], []
            for i, raw in enumerate(arr):
                w = want if i == hot else rng.choice(["equal", "equal", "inside"])
                e, g = pick_expected(rng, x, raw, am, rm, w)
                exp.append(e)
                got.append(g)
        worst = "nonfinite" if "nonfinite" in got else "error" if "error" in got else ("beyond" if "beyond" in got else ("at" if "at" in got else
                                                ("inside" if "inside" in got else "equal")))
        tags.append(f"{x['type']}/{layout}/{worst}")

        def tree(value):
            direct = (str(pk) == str(period)) and rng.random() < 0.6
            return value if direct else {pk: value}

        if layout == "instance":
            chosen = [i for i in range(len(ids)) if rng.random() < 0.8] or [0]
            for i in chosen:
                v = exp[i] if rng.random() < 0.8 else [exp[i]]
                output.setdefault(PLURAL[x["ent"]], {}).setdefault(ids[i], {})[name] = tree(v)
        else:
            if len({json.dumps(e, sort_keys=True) for e in exp}) == 1 and rng.random() < 0.6:
                value = exp[0]
            elif rng.random() < 0.04:
                value = exp + [exp[-1]]          # one element too many: a shape error
            else:
                value = list(exp)
            if layout == "variable":
                output[name] = tree(value)
            else:
                key = "person" if x["ent"] == "person" else "household"
                output.setdefault(key, {})[name] = tree(value)
    test["tags"] = tags
    test["cells"] = [c[0] for c in cells]
    test["pids"] = pids
    test["hids"] = hids
    return test


# ---------------------------------------------------------------------------------------
# generate
# ---------------------------------------------------------------------------------------

def generate(rng, tier):
    n_api, n_yaml = {"quick": (120, 56), "escalated": (120, 80), "thorough": (400, 250)}[tier]
    cases = []
    with warnings.catch_warnings():
        warnings.simplefilter("ignore")
        for _ in range(n_api):
            cases.append(gen_api_case(rng))
        for _ in range(n_yaml):
            cases.append(gen_yaml_case(rng))
        for _ in range({"quick": 1, "escalated": 1, "thorough": 3}[tier]):
            cases.append(gen_big_case(rng))
    return cases


# ---------------------------------------------------------------------------------------
# a population above 65536 groups (oracle only: the expected values are known in closed form)
# ---------------------------------------------------------------------------------------

def gen_big_case(rng):
    n = rng.choice([70000, 66000 + rng.randrange(5000)])
    last = rng.randrange(65536, n)
    return {"kind": "big", "sys": {"vars": [], "params": [], "switches": [], "max_loops": 1}, "n": n,
            "first": last - 65536, "last": last, "a": rng.randint(2, 90), "b": rng.randint(91, 200),
            "month": f"{rng.choice(rules.BASE_YEARS)}-{rng.randint(1, 12):02d}"}


def run_big(case):
    """n persons, no household declared: person k is alone in household k.  xf_h = 0.25 * (sum of xi_p of the
    members) + 0.75, xi_p is 1 unless given: every household has 1.0, except the two whose member has an input.
    Three YAML tests: the true values as a list (by variable), the true values by instance, and the values the
    two households would have if the member of the one counted for the other (must fail)."""
    import c20_pytest_plugin
    from openfisca_core.tools.test_runner import run_tests

    n, first, last, a, b, month = (case[k] for k in ("n", "first", "last", "a", "b", "month"))
    tbs = build_tbs(case["sys"])
    true = {first: a * 0.25 + 0.75, last: b * 0.25 + 0.75}
    lines = []
    persons = ["    persons:"] + [
        f"      p{i}: {{xi_p: {{{month}: {a if i == first else b}}}}}" if i in (first, last) else f"      p{i}: {{}}"
        for i in range(n)]
    values = ", ".join(str(true.get(i, 1.0)) for i in range(n))
    outputs = {
        "big-true-by-variable": [f"    xf_h: [{values}]"],
        "big-true-by-instance": ["    households:", f"      p{first}: {{xf_h: {true[first]}}}",
                                 f"      p{last}: {{xf_h: {true[last]}}}", "      p0: {xf_h: 1.0}",
                                 f"      p{n - 1}: {{xf_h: {true.get(n - 1, 1.0)}}}"],
        "big-swapped-by-instance": ["    households:", f"      p{first}: {{xf_h: {(a + b) * 0.25 + 0.75}}}",
                                    f"      p{last}: {{xf_h: 0.75}}"],
    }
    for name, out in outputs.items():
        lines += [f"- name: {name}", f"  period: {month}", "  input:"] + persons + ["  output:"] + out
    _RUN[0] += 1
    d = SCRATCH / f"c20-run-{os.getpid()}-{_RUN[0]}"
    d.mkdir(parents=True, exist_ok=True)
    verdicts = {}
    try:
        (d / "tests.yaml").write_text("\n".join(lines) + "\n")
        del c20_pytest_plugin.RESULTS[:]
        old = {k: os.environ.get(k) for k in ("PYTEST_PLUGINS", "PYTEST_ADDOPTS")}
        os.environ["PYTEST_PLUGINS"] = "c20_pytest_plugin"
        os.environ["PYTEST_ADDOPTS"] = "-q --tb=no -p no:cacheprovider --rootdir=" + str(d)
        try:
            with contextlib.redirect_stdout(io.StringIO()), contextlib.redirect_stderr(io.StringIO()):
                run_tests(tbs, [str(d / "tests.yaml")], dict(case.get("options") or {}))
        finally:
            for k, v in old.items():
                if v is None:
                    os.environ.pop(k, None)
                else:
                    os.environ[k] = v
        for name, exc in c20_pytest_plugin.RESULTS:
            verdicts[name] = True if exc is None else (False if isinstance(exc, AssertionError) else
                                                       Err(errkind(exc), f"{type(exc).__name__}: {exc}"[:160]))
    finally:
        shutil.rmtree(d, ignore_errors=True)
    return {"big": [[name, verdicts.get(name, Err("EOther", "no verdict recorded"))] for name in outputs]}


def oracle_big(case, obs):
    want = {"big-true-by-variable": True, "big-true-by-instance": True, "big-swapped-by-instance": False}
    for name, v in obs["big"]:
        if (v is True) != want[name]:
            return (f"verdict: {case['n']} persons in one-person households, xi_p given for p{case['first']} and "
                    f"p{case['last']}: test {name} {'passes' if v is True else 'fails (' + repr(v) + ')'}, expected to "
                    f"{'pass' if want[name] else 'fail'}")
    return None


# ---------------------------------------------------------------------------------------
# implementation drivers
# ---------------------------------------------------------------------------------------

def described(d):
    """entitiesDescription in the system's entity order (the JSON encoder sorts keys)"""
    out = [[pl, d[pl]] for pl in ("persons", "households") if pl in d]
    return out + [[pl, d[pl]] for pl in sorted(d) if pl not in ("persons", "households")]


def null_slots(flat):
    return [e for e in flat if e[4] is None]


def doc_cells(flat, vt):
    return [(e[2], e[3]) for e in null_slots(flat)]


def ids_of_doc(entry):
    return {"persons": entry["pids"], "households": entry["hids"]}


def run_api(case):
    import importlib

    import openfisca_web_api.app
    import openfisca_web_api.handlers

    # every case starts from freshly loaded web API modules: whatever a request sequence shows is then
    # due to that sequence alone (and is reproduced by replaying the case in a new process)
    importlib.reload(openfisca_web_api.handlers)
    importlib.reload(openfisca_web_api.app)
    create_app = openfisca_web_api.app.create_app

    sysj = case["sys"]
    vt = var_table(sysj)
    tbs = build_tbs(sysj, case.get("ptree"))
    app = create_app(tbs)
    app.logger.setLevel(logging.CRITICAL + 10)
    client = app.test_client()
    tbs2 = build_tbs(sysj, case.get("ptree"))           # the oracle's own instance of the system
    ops_obs = []
    inexact = False
    values = {}
    for k, entry in enumerate(case["docs"]):
        flat = flatten(entry["doc"])
        try:
            values[k] = engine_values(tbs2, entry["doc"], doc_cells(flat, vt)) if entry["expect"] in (200, 500) else {}
        except Inexact:
            inexact = True
            values[k] = {}
    for op in case["ops"]:
        kind = op[0]
        try:
            if kind in ("calculate", "trace"):
                entry = case["docs"][op[1]]
                flat = flatten(entry["doc"])
                r = client.post("/" + kind, data=json.dumps(entry["doc"]), content_type="application/json")
                body = r.get_json()
                if r.status_code != 200:
                    ops_obs.append({"op": op, "status": r.status_code})
                elif kind == "calculate":
                    ops_obs.append({"op": op, "status": 200, "paths": response_paths(flat, body), "body": body})
                else:
                    tr = body.get("trace", {})
                    traced = []
                    for e in null_slots(flat):
                        try:
                            canon = str(rules.periods.period(e[3]))
                        except Exception:  # noqa: BLE001
                            canon = e[3]
                        key = f"{e[2]}<{canon}>"
                        val = tr.get(key, {}).get("value") if isinstance(tr.get(key), dict) else None
                        traced.append([key, None if val is None else [leaf_obs(x) for x in val]])
                    ops_obs.append({"op": op, "status": 200, "requested": body.get("requestedCalculations"),
                                    "described": described(body.get("entitiesDescription", {})),
                                    "traced": traced})
            elif kind in ("parameter", "pleaf"):
                r = client.get(f"/parameter/p{op[1]}" if kind == "parameter" else f"/parameter/{op[1]}")
                body = r.get_json()
                ops_obs.append({"op": op, "status": r.status_code,
                                "values": [[d, v] for d, v in sorted(body.get("values", {}).items(), reverse=True)]})
            elif kind == "scale":
                r = client.get(f"/parameter/{op[1]}")
                body = r.get_json()
                listed = []
                for d, br in sorted((body.get("brackets") or {}).items()):
                    listed.append([d, None if br is None else sorted([float(t), v] for t, v in br.items())])
                ops_obs.append({"op": op, "status": r.status_code, "brackets": listed, "has": "brackets" in body})
            elif kind == "pnode":
                r = client.get(f"/parameter/{op[1]}")
                body = r.get_json()
                ops_obs.append({"op": op, "status": r.status_code, "subparams": sorted(body.get("subparams", {}))})
            else:
                r = client.get(f"/variable/{op[1]}")
                body = r.get_json()
                ops_obs.append({"op": op, "status": r.status_code,
                                "default": leaf_obs(body.get("defaultValue")), "valueType": body.get("valueType"),
                                "definitionPeriod": body.get("definitionPeriod"), "entity": body.get("entity"),
                                "formulas": [[d, f is not None] for d, f in sorted(body.get("formulas", {}).items())],
                                "possibleValues": body.get("possibleValues")})
        except Inexact:
            inexact = True
            ops_obs.append({"op": op, "status": "inexact"})
    # what the engine uses, for the listings (oracle)
    uses = {"params": [], "vars": {}}
    for k, hist in enumerate(sysj["params"]):
        samples = []
        for (y, m, d), _ in hist:
            for delta in (-1, 0, 40):
                t = datetime.date(y, m, d) + datetime.timedelta(days=delta)
                try:
                    val = getattr(tbs2.parameters(t.isoformat()), f"p{k}")
                except Exception as e:  # noqa: BLE001
                    val = Err(errkind(e))
                samples.append([t.isoformat(), val])
        uses["params"].append(samples)
    if case.get("ptree"):
        uses["scales"] = {}
        for path, attrs in SCALE_PATHS.items():
            sc = case["ptree"][attrs[-1]]
            mentioned = {d for b in sc["brackets"] for d, _ in b["threshold"] + b["value"]}
            dates = set()
            for d in mentioned:
                d0 = datetime.date.fromisoformat(d)
                dates |= {d0, d0 - datetime.timedelta(days=1), d0 + datetime.timedelta(days=40)}
            samples = []
            for t in sorted(dates):
                try:
                    node = tbs2.get_parameters_at_instant(t.isoformat()).taxes
                    for a in attrs:
                        node = getattr(node, a)
                    # (before its first value an amount scale has no bracket at all and is built as an empty rate scale)
                    vals = node.rates if sc["kind"] == "rate" else getattr(node, "amounts", [])
                    got = sorted([float(x), float(y)] for x, y in zip(node.thresholds, vals))
                except Exception as e:  # noqa: BLE001
                    got = Err(errkind(e), f"{type(e).__name__}: {e}"[:120])
                samples.append([t.isoformat(), got])
            uses["scales"][path] = samples
        uses["leaf"] = []
        for d, _ in case["ptree"]["q"]:
            for delta in (-1, 0, 40):
                t = (datetime.date.fromisoformat(d) + datetime.timedelta(days=delta)).isoformat()
                try:
                    val = tbs2.get_parameters_at_instant(t).taxes.sub.q
                except Exception as e:  # noqa: BLE001
                    val = Err(errkind(e))
                uses["leaf"].append([t, val])
        uses["nodes"] = {"taxes": sorted(tbs2.parameters.taxes.children), "taxes/sub": sorted(tbs2.parameters.taxes.sub.children)}
    for name in vt:
        var = tbs2.get_variable(name)
        samples = []
        dates = {datetime.date(y, 1, 1) for y in (2014, 2016, 2017, 2018, 2019, 2020, 2021)}
        for s in var.formulas:
            d0 = datetime.date.fromisoformat(s)
            dates |= {d0, d0 - datetime.timedelta(days=1)} if d0 > datetime.date(1, 1, 2) else {d0}
        if var.end:
            dates |= {var.end, var.end + datetime.timedelta(days=1)}
        for d in sorted(dates):
            day = rules.periods.Period((DateUnit.DAY, rules.periods.Instant((d.year, d.month, d.day)), 1))
            samples.append([d.isoformat(), var.get_formula(day) is not None])
        uses["vars"][name] = samples
    obs = {"ops": ops_obs, "values": {str(k): [[list(c), v] for c, v in vals.items()] for k, vals in values.items()},
           "uses": uses, "inexact": inexact}
    return obs


def write_yaml(case, path):
    import yaml

    def conv(x):
        if isinstance(x, dict):
            if set(x) == {"$date"}:
                return datetime.date.fromisoformat(x["$date"])
            return {k: conv(v) for k, v in x.items()}
        if isinstance(x, list):
            return [conv(v) for v in x]
        return x

    tests = []
    for t in case["tests"]:
        tests.append({k: conv(v) for k, v in t.items() if k not in ("tags", "pids", "hids", "cells")})
    path.write_text(yaml.safe_dump(tests, sort_keys=False, default_flow_style=False))


def expectations(test, vt):
    """the output section flattened by the property's reading: (variable, period key, instance id or None, target)"""
    out = []

    def walk(name, value, pk, iid):
        if isinstance(value, dict) and set(value) != {"$date"}:
            for k, v in value.items():
                walk(name, v, str(k), iid)
        else:
            out.append((name, pk, iid, value))

    for key, value in test["output"].items():
        if key in vt:
            walk(key, value, str(test["period"]), None)
        elif key in ("person", "household"):
            for name, v in value.items():
                walk(name, v, str(test["period"]), None)
        else:
            for iid, inst in value.items():
                for name, v in inst.items():
                    walk(name, v, str(test["period"]), iid)
    return out


def target_leaf(x):
    if isinstance(x, dict):
        return x["$date"]
    return x


def run_yaml(case):
    import c20_pytest_plugin
    from openfisca_core.tools.test_runner import run_tests

    sysj = case["sys"]
    vt = var_table(sysj)
    tbs = build_tbs(sysj)
    tbs2 = build_tbs(sysj)
    _RUN[0] += 1
    d = SCRATCH / f"c20-run-{os.getpid()}-{_RUN[0]}"
    d.mkdir(parents=True, exist_ok=True)
    verdicts = {}
    try:
        write_yaml(case, d / "tests.yaml")
        del c20_pytest_plugin.RESULTS[:]
        old = {k: os.environ.get(k) for k in ("PYTEST_PLUGINS", "PYTEST_ADDOPTS")}
        os.environ["PYTEST_PLUGINS"] = "c20_pytest_plugin"
        os.environ["PYTEST_ADDOPTS"] = "-q --tb=no -p no:cacheprovider --rootdir=" + str(d)
        try:
            with contextlib.redirect_stdout(io.StringIO()), contextlib.redirect_stderr(io.StringIO()):
                run_tests(tbs, [str(d / "tests.yaml")], dict(case.get("options") or {}))
        finally:
            for k, v in old.items():
                if v is None:
                    os.environ.pop(k, None)
                else:
                    os.environ[k] = v
        for name, exc in c20_pytest_plugin.RESULTS:
            if exc is None:
                verdicts[name] = True
            elif isinstance(exc, AssertionError):
                verdicts[name] = False
            else:
                verdicts[name] = Err(errkind(exc), f"{type(exc).__name__}: {exc}"[:160])
    finally:
        shutil.rmtree(d, ignore_errors=True)
    values = []
    inexact = False
    for t in case["tests"]:
        cells = [(n, pk) for n, pk, _, _ in expectations(t, vt)]
        try:
            vals = engine_values(tbs2, t["input"], cells, default_period=t["period"])
        except Inexact:
            inexact = True
            vals = {}
        values.append([[list(c), v] for c, v in vals.items()])
    return {"verdicts": [verdicts.get(t["name"], Err("EOther", "no verdict recorded")) for t in case["tests"]],
            "values": values, "inexact": inexact}


def run_impl(case):
    with warnings.catch_warnings():
        warnings.simplefilter("ignore")
        obs = run_big(case) if case["kind"] == "big" else \
            run_api(D(case)) if case["kind"] == "api" else run_yaml(D(case))
    _AUX[_key(case)] = obs
    return obs


# ---------------------------------------------------------------------------------------
# Coq rendering
# ---------------------------------------------------------------------------------------

def cleaf(x):
    if isinstance(x, dict) and set(x) == {"$date"}:
        x = x["$date"]
    if x is None:
        return "Null"
    if isinstance(x, bool):
        return f"(Bool {cbool(x)})"
    if isinstance(x, int):
        return f"(Num {cz(x)})"
    if isinstance(x, (float, fractions.Fraction)):
        return f"(Flt {cq(fractions.Fraction(x))})"
    if isinstance(x, str):
        return f"(Str {cstr(x)})"
    raise TypeError(repr(x))


def cdoc(flat):
    return clist([f"(({cstr(a)}, {cstr(b)}, {cstr(c)}, {cstr(k)}), {cleaf(l)})" for a, b, c, k, l in flat])


def craw(r):
    tag, x = r[0], r[1]
    if tag == "z":
        return f"(RZ {cz(x)})"
    if tag == "n":
        return "RNF"
    if tag == "f":
        return f"(RF {cq(fractions.Fraction(*r[1]))} {cq(fractions.Fraction(*r[2]))})"
    if tag == "q":
        return f"(RQ {cq(fractions.Fraction(*x))})"
    if tag == "s":
        return f"(RS {cstr(x)})"
    return f"(RD {rules.cdate(x)})"


def ctable(vals):
    items = []
    for (v, pk), a in vals:
        body = f"(Err {a.kind})" if isinstance(a, Err) else f"(Ok {clist([craw(r) for r in a])})"
        items.append(f"(({cstr(v)}, {cstr(pk)}), {body})")
    return clist(items)


def cjtype(x):
    t = x["type"]
    if t == "enum":
        return f"(JEnum {clist([cstr(n) for n in ENUM_NAMES])})"
    return {"int": "JInt", "float": "JFloat", "bool": "JBool", "str": "JStr", "date": "JDate"}[t]


def cvtable(vt):
    return clist([f"({cstr(n)}, ({cjtype(x)}, {cstr(PLURAL[x['ent']])}))" for n, x in vt.items()])


def cids(ids):
    return clist([f"({cstr(pl)}, {clist([cstr(i) for i in l])})" for pl, l in ids.items()])


def eligible(entry, flat, vt):
    """the request only mentions harness/rules.py variables: the model can compute the values itself"""
    for e in flat:
        if e[0] == "households" and e[2] in ("parents", "children", "heads"):
            continue
        if e[2] in vt and vt[e[2]]["rule"] is None:
            return False
    return True


def coq_ops(case, obs):
    """[(Coq op term, index of the implementation observation it is compared with)]"""
    vt = var_table(case["sys"])
    out = []
    for n, op in enumerate(case["ops"]):
        kind = op[0]
        if kind in ("calculate", "trace"):
            entry = case["docs"][op[1]]
            flat = flatten(entry["doc"])
            vals = [(tuple(c), v) for c, v in obs["values"].get(str(op[1]), [])]
            if any(not isinstance(v, Err) and any(r[0] == "n" for r in v) for _, v in vals):
                continue        # NaN / infinite engine values have no JSON leaf in the model: oracle only
            ids = cids(ids_of_doc(entry))
            cname = "OCalc" if kind == "calculate" else "OTrace"
            out.append((f"({cname} {ids} {ctable(vals)} {cdoc(flat)})", n))
            if eligible(entry, flat, vt):
                ename = "OCalcEng" if kind == "calculate" else "OTraceEng"
                out.append((f"({ename} {rules.cpop(entry['pop'])} {clist([cstr(i) for i in entry['pids']])} "
                            f"{clist([cstr(i) for i in entry['hids']])} {cdoc(flat)})", n))
        elif kind == "parameter":
            out.append((f"(OParam {rules.cnat(op[1])})", n))
        elif kind in ("scale", "pleaf", "pnode"):
            continue            # scales and nested nodes: oracle only
        elif vt[op[1]]["rule"] is not None:
            out.append((f"(OVar {rules.cnat(vt[op[1]]['rule'])})", n))
    return out


def cytree(x):
    if isinstance(x, dict) and set(x) != {"$date"}:
        return "(YD " + clist([f"({cstr(str(k))}, {cytree(v)})" for k, v in x.items()]) + ")"
    if isinstance(x, list):
        return "(YS " + clist([cleaf(v) for v in x]) + ")"
    return f"(YL {cleaf(x)})"


def cmargin(m):
    if m is None:
        return "MNone"
    if isinstance(m, dict):
        items = [f"({cstr(k)}, {copt(v, lambda q: cq(fractions.Fraction(q)))})" for k, v in m.items() if k != "default"]
        dflt = "None" if "default" not in m else f"(Some {copt(m['default'], lambda q: cq(fractions.Fraction(q)))})"
        return f"(MMap {clist(items)} {dflt})"
    return f"(MAll {cq(fractions.Fraction(m))})"


def cast_targets(test, vt):
    """the output section with the numbers expected of numeric variables cast to float32, as assert_near does
    before it compares (target_value.astype(float32)); the model then works on exact rationals"""
    numeric = {n for n, x in vt.items() if x["type"] in ("int", "float", "bool")}

    def leaf(x):
        if isinstance(x, bool) or not isinstance(x, (int, float)):
            return x
        c = float(numpy.float32(x))
        return x if c == x else c

    def walk(name, value):
        if isinstance(value, dict) and set(value) != {"$date"}:
            return {k: walk(name, v) for k, v in value.items()}
        if name not in numeric:
            return value
        return [leaf(v) for v in value] if isinstance(value, list) else leaf(value)

    out = {}
    for key, value in test["output"].items():
        if key in vt:
            out[key] = walk(key, value)
        elif key in ("person", "household"):
            out[key] = {n: walk(n, v) for n, v in value.items()}
        else:
            out[key] = {iid: {n: walk(n, v) for n, v in inst.items()} for iid, inst in value.items()}
    return out


def prune(output, vt, options):
    """the output section without the variables the options leave out (check_variable returns at once for them,
    before anything is computed): what the model, which has no options, is given"""
    out = {}
    for key, value in output.items():
        if key in vt:
            if not ignored(options, key):
                out[key] = value
        elif key in ("person", "household"):
            out[key] = {n: v for n, v in value.items() if not ignored(options, n)}
        else:
            out[key] = {iid: {n: v for n, v in inst.items() if not ignored(options, n)} for iid, inst in value.items()}
    return out


def cytest(t, vt, options=None):
    out = clist([f"({cstr(str(k))}, {cytree(v)})" for k, v in prune(cast_targets(t, vt), vt, options or {}).items()])
    return (f"(mk_ytest (Some {cstr(str(t['period']))}) {out} {cmargin(t.get('absolute_error_margin'))} "
            f"{cmargin(t.get('relative_error_margin'))})")


def coq_case(case):
    obs = _AUX.get(_key(case))
    if obs is None or isinstance(obs, Err) or obs.get("inexact") or case["kind"] == "big":
        return "(KYaml [] [] [])"
    case = D(case)
    vt = var_table(case["sys"])
    if case["kind"] == "api":
        ops = coq_ops(case, obs)
        names = clist([cstr(f"v{i}") for i in range(len(case["sys"]["vars"]))])
        return (f"(KApi {cvtable(vt)} [\"persons\"; \"households\"] {rules.csys(case['sys'], {})} {names} "
                f"{clist([o for o, _ in ops])})")
    tests = []
    for t, vals in zip(case["tests"], obs["values"]):
        if nomodel(t):
            continue
        ids = cids({"persons": t["pids"], "households": t["hids"]})
        tests.append(f"({ids}, {ctable([(tuple(c), v) for c, v in vals])}, {cytest(t, vt, case.get("options"))})")
    return f"(KYaml {cvtable(vt)} [\"person\"; \"household\"] {clist(tests)})"


def op_obs_for_coq(o):
    kind = o["op"][0]
    if o["status"] != 200:
        return o["status"]
    if kind == "calculate":
        return o["paths"]
    if kind == "trace":
        return [o["requested"], o["described"], o["traced"]]
    if kind == "parameter":
        return o["values"]
    return [o["default"], o["valueType"], o["definitionPeriod"], o["entity"], o["formulas"]]


def obs_for_coq(case, obs):
    if isinstance(obs, Err):
        return obs
    if obs.get("inexact") or case["kind"] == "big":
        return []
    case = D(case)
    if case["kind"] == "api":
        return [op_obs_for_coq(obs["ops"][n]) for _, n in coq_ops(case, obs)]
    return [v for t, v in zip(case["tests"], obs["verdicts"]) if not nomodel(t)]


def nomodel(test):
    """an expected .nan / .inf has no leaf in the model: such a test is judged by the oracle only"""
    def bad(x):
        if isinstance(x, dict):
            return any(bad(v) for v in x.values())
        if isinstance(x, list):
            return any(bad(v) for v in x)
        return isinstance(x, float) and (x != x or x in (float("inf"), float("-inf")))
    return bad(test["output"])


# ---------------------------------------------------------------------------------------
# oracle: the property's text, evaluated on the implementation's answers
# ---------------------------------------------------------------------------------------

def expected_response(entry, vals, vt):
    """the posted document with every null slot replaced by the engine's value rendered in the
    variable's type; None when the engine refuses one of the slots"""
    doc = copy.deepcopy(entry["doc"])
    for pl, insts in doc.items():
        order = list(insts.keys())
        for iid, inst in insts.items():
            for k, sub in inst.items():
                if isinstance(sub, dict):
                    for pk, leaf in sub.items():
                        if leaf is None:
                            a = vals.get((k, str(pk)))
                            if a is None or isinstance(a, Err):
                                return None
                            sub[pk] = render_py(vt[k], a[order.index(iid)])
    return doc


def first_difference(a, b, path=""):
    if isinstance(a, dict) and isinstance(b, dict):
        for k in a:
            if k not in b:
                return f"{path}/{k}: missing in the response"
        for k in b:
            if k not in a:
                return f"{path}/{k}: added by the response"
        for k in a:
            d = first_difference(a[k], b[k], f"{path}/{k}")
            if d:
                return d
        return None
    if isinstance(a, list) and isinstance(b, list) and len(a) == len(b):
        for i, (x, y) in enumerate(zip(a, b)):
            d = first_difference(x, y, f"{path}/{i}")
            if d:
                return d
        return None
    return None if same(a, b) else f"{path}: expected {a!r}, response has {b!r}"


def oracle_api(case, obs):
    vt = var_table(case["sys"])
    sysj = case["sys"]
    seen = {}
    for o in obs["ops"]:
        op = o["op"]
        kind = op[0]
        if o["status"] == "inexact":
            continue
        if kind in ("calculate", "trace"):
            entry = case["docs"][op[1]]
            vals = {tuple(c): v for c, v in obs["values"].get(str(op[1]), [])}
            want = entry["expect"]
            if want in (200, 500):
                # accepted by the builder: 500 exactly when the engine refuses one of the slots
                want = 500 if any(isinstance(v, Err) for v in vals.values()) else 200
            if o["status"] != want:
                return (f"status: {kind} of a situation with defect {entry['defect']} answered {o['status']}, "
                        f"expected {want}")
            # an earlier identical request must have had the identical answer
            sig = (kind, op[1])
            now = json.dumps({k: v for k, v in o.items() if k != "op"}, sort_keys=True, default=str)
            if sig in seen and seen[sig] != now:
                return f"independent: the same {kind} request was answered differently later in the sequence"
            seen[sig] = now
            if o["status"] != 200:
                continue
            exp = expected_response(entry, vals, vt)
            if exp is None:
                return f"status: the engine refuses a slot but {kind} answered 200"
            if kind == "calculate":
                d = first_difference(exp, o["body"])
                if d:
                    return f"fills: /calculate {d}"
            else:
                flat = flatten(entry["doc"])
                slots = null_slots(flat)
                if o["requested"] != [f"{e[2]}<{e[3]}>" for e in slots]:
                    return f"trace: requestedCalculations {o['requested']}"
                ids = ids_of_doc(entry)
                if sorted(map(json.dumps, o["described"])) != sorted(json.dumps([pl, l]) for pl, l in ids.items()):
                    return f"trace: entitiesDescription {o['described']} for ids {ids}"
                for e, (key, val) in zip(slots, o["traced"]):
                    order = list(entry["doc"][e[0]].keys())
                    a = vals[(e[2], e[3])]
                    want_leaf = render_py(vt[e[2]], a[order.index(e[1])])
                    if val is None:
                        return f"trace: no entry {key} in the trace"
                    got = val[order.index(e[1])]
                    if isinstance(want_leaf, float):
                        # the trace gives the float32 value itself (tolist), /calculate its shortest text: equal as float32
                        ok = isinstance(got, (fractions.Fraction, float)) and \
                            same_f32(float(got), want_leaf)
                    else:
                        ok = same(got, want_leaf)
                    if not ok:
                        return f"trace: {key}[{e[1]}] is {got!r}, /calculate and the engine give {want_leaf!r}"
        elif kind == "scale":
            if o["status"] != 200 or not o["has"]:
                return f"scale: /parameter/{op[1]} answered {o['status']} without brackets"
            for t, eng in obs["uses"]["scales"][op[1]]:
                before = [br for d, br in o["brackets"] if d <= t]
                shown = (before[-1] or []) if before else []
                if isinstance(eng, Err):
                    return f"scale: {op[1]} at {t}: engine fails ({eng.msg})"
                ok = len(shown) == len(eng) and all(
                    abs(a[0] - b[0]) < 1e-9 and a[1] is not None and abs(a[1] - b[1]) < 1e-9 for a, b in zip(shown, eng))
                if not ok:
                    return (f"scale: {op[1]} on {t}: the engine uses the brackets {eng}, the listing shows {shown} "
                            f"(listed dates {[d for d, _ in o['brackets']]})")
        elif kind == "pnode":
            if o["status"] != 200 or o["subparams"] != obs["uses"]["nodes"][op[1]]:
                return f"node: /parameter/{op[1]} lists {o.get('subparams')}, the engine's node has {obs['uses']['nodes'][op[1]]}"
        elif kind in ("parameter", "pleaf"):
            if kind == "parameter":
                hist = sysj["params"][op[1]]
                want = sorted(([f"{y:04d}-{m:02d}-{d:02d}", z] for (y, m, d), z in hist), reverse=True)
                samples = obs["uses"]["params"][op[1]]
            else:
                want = sorted(([d, z] for d, z in case["ptree"]["q"]), reverse=True)
                samples = obs["uses"]["leaf"]
            if o["status"] != 200 or not same(o["values"], want):
                return f"parameter: /parameter/{op[1]} lists {o.get('values')} for the history {want}"
            for t, val in samples:
                listed = [z for d, z in want if d <= t]
                shown = listed[0] if listed else None
                if isinstance(val, Err):
                    if listed and shown is not None:
                        return f"parameter: p{op[1]} at {t}: engine fails, listing shows {shown}"
                elif not same(val, shown):
                    return f"parameter: p{op[1]} at {t}: engine uses {val!r}, listing shows {shown!r}"
        else:
            name = op[1]
            x = vt[name]
            if o["status"] != 200:
                return f"variable: /variable/{name} answered {o['status']}"
            listed = o["formulas"]
            for t, has in obs["uses"]["vars"][name]:
                before = [nn for d, nn in listed if d <= t]
                shown = before[-1] if before else False
                if shown != has:
                    return (f"variable: {name} at {t}: engine {'has' if has else 'has no'} formula in force, "
                            f"listing {listed}")
            if o["entity"] != ("person" if x["ent"] == "person" else "household"):
                return f"variable: {name} entity {o['entity']}"
            if o["definitionPeriod"] != x["unit"].upper():
                return f"variable: {name} definitionPeriod {o['definitionPeriod']}"
            wt = {"int": "Int", "float": "Float", "bool": "Boolean", "str": "String", "date": "Date", "enum": "String"}[x["type"]]
            if o["valueType"] != wt:
                return f"variable: {name} valueType {o['valueType']}"
            if x["rule"] is not None:
                v = sysj["vars"][x["rule"]]
                dv = {"int": int, "float": fractions.Fraction, "bool": bool}[v["type"]](v["default"])
                if not same(o["default"], dv):
                    return f"variable: {name} defaultValue {o['default']!r}, declared {dv!r}"
    return None


def yaml_expected_pass(test, vals, vt, options=None):
    """every expected output (of a variable that the run's options do not leave out) lies within its margin of
    the engine's value"""
    ids = {"person": test["pids"], "group": test["hids"]}
    for name, pk, iid, target in expectations(test, vt):
        if ignored(options or {}, name):
            continue
        if name not in vt:
            return False
        x = vt[name]
        arr = vals.get((name, pk))
        if arr is None or isinstance(arr, Err):
            return False
        if iid is not None:
            if iid not in ids[x["ent"]]:
                return False
            arr = [arr[ids[x["ent"]].index(iid)]]
        tl = [target_leaf(t) for t in target] if isinstance(target, list) else [target_leaf(target)]
        if len(tl) == len(arr):
            pairs = list(zip(arr, tl))
        elif len(tl) == 1:
            pairs = [(a, tl[0]) for a in arr]
        elif len(arr) == 1:
            pairs = [(arr[0], t) for t in tl]
        else:
            return False
        am, rm = effective_margins(test, name)
        for raw, t in pairs:
            if raw[0] == "n":
                return False              # nothing lies within a margin of NaN or of an infinite value
            if x["type"] in ("int", "float", "bool"):
                if isinstance(t, str) or t is None or t != t or t in (float("inf"), float("-inf")):
                    return False
                if not within(fr(raw), f32(t), am, rm):
                    return False
            elif x["type"] == "enum":
                if ENUM_NAMES[raw[1]] != t:
                    return False
            elif x["type"] == "date":
                if datetime.date(*raw[1]).isoformat() != t:
                    return False
            else:
                if raw[1] != str(t):
                    return False
    return True


def oracle_yaml(case, obs):
    vt = var_table(case["sys"])
    for t, verdict, vals in zip(case["tests"], obs["verdicts"], obs["values"]):
        vals = {tuple(c): v for c, v in vals}
        want = yaml_expected_pass(t, vals, vt, case.get("options"))
        got = verdict is True
        if want != got:
            return (f"verdict: test {t['name']} {'passes' if got else 'fails (' + repr(verdict) + ')'} but its "
                    f"expectations are {'all' if want else 'not all'} within margin; output {json.dumps(t['output'])[:300]}, "
                    f"engine values {vals}, margins {t.get('absolute_error_margin')}/{t.get('relative_error_margin')}, "
                    f"options {case.get('options')}")
    return None


def oracle(case, obs):
    if isinstance(obs, Err):
        return f"driver: {obs.msg}"
    if obs.get("inexact"):
        return None
    if case["kind"] == "big":
        return oracle_big(case, obs)
    case = D(case)
    return oracle_api(case, obs) if case["kind"] == "api" else oracle_yaml(case, obs)


# ---------------------------------------------------------------------------------------
# evidence helpers
# ---------------------------------------------------------------------------------------

def nontrivial(case, obs):
    if isinstance(obs, Err) or obs.get("inexact"):
        return False
    if case["kind"] == "big":
        return True
    if case["kind"] == "api":
        return any(o["status"] == 200 and o["op"][0] == "calculate" for o in obs["ops"])
    vs = [v is True for v in obs["verdicts"]]
    return any(vs) and not all(vs)


def classify(case, obs):
    if isinstance(obs, Err):
        return "driver-error"
    if obs.get("inexact"):
        return "skipped-inexact"
    if case["kind"] == "big":
        return "big-population"
    case = D(case)
    if case["kind"] == "api":
        n = sum(1 for op in case["ops"] if op[0] in ("calculate", "trace"))
        defects = sorted({d["defect"] for d in case["docs"] if d["defect"]})
        return f"api:{n}-requests" + ("+" + "+".join(defects) if defects else "")
    npass = sum(1 for v in obs["verdicts"] if v is True)
    return f"yaml:{len(case['tests'])}-tests:{npass}-pass"


_FRESH = """
import json, sys, warnings
warnings.simplefilter("ignore")
import c20
from common import guarded
case = json.load(sys.stdin)
print("C20-FRESH", "FAIL" if c20.oracle(case, guarded(c20.run_impl, case)) else "OK")
"""


def fails_fresh(case):
    """does the oracle fail on this case in a new interpreter?  (A replay starts from a clean process: a
    failure that needs what earlier cases left behind in module-level state is not reproduced by one case.)"""
    import subprocess
    import sys
    try:
        p = subprocess.run([sys.executable, "-c", _FRESH], input=json.dumps(case), capture_output=True, text=True,
                           timeout=300)
    except Exception:  # noqa: BLE001
        return False
    return "C20-FRESH FAIL" in p.stdout


def shrink(case, still_fails):
    """a YAML file is cut down to one failing test; a request sequence loses every operation it can.  Every
    candidate is tried in a new interpreter, so that the replay of the result fails by itself."""
    if case["kind"] == "big" or not fails_fresh(case):
        return None
    if case["kind"] == "yaml":
        for t in case["tests"]:
            c = dict(case, tests=[t])
            if fails_fresh(c):
                return c
        return None
    ops = list(case["ops"])
    changed = False
    i = 0
    while i < len(ops) and len(ops) > 1:
        trial = ops[:i] + ops[i + 1:]
        if fails_fresh(dict(case, ops=trial)):
            ops = trial
            changed = True
        else:
            i += 1
    return dict(case, ops=ops) if changed else None


def totals(cases, observations):
    """requests and YAML tests run (printed by the check for the hand-back)"""
    req = sum(1 for c in cases if c["kind"] == "api" for op in c["ops"] if op[0] in ("calculate", "trace"))
    tests = sum(len(c["tests"]) for c in cases if c["kind"] == "yaml")
    return req, tests
