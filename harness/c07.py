"""C07 - every way of reading parameters returns the tree's current values.

One case is an initial parameter tree and a sequence of operations run on a WORLD of tax-benefit
systems (a baseline, reforms over it - with or without a parameter modifier -, reforms of reforms;
every operation names its system, and each system's reads are compared with ITS OWN tree): reads at a date through the four routes (the system's at-instant view, the
parameter object called at the date, a formula's `parameters` argument with the trace off
and on), optionally followed by fancy indexing (an array of names, Enum members or an
EnumArray, then further arrays / a field; an array of dates), interleaved with the
documented ways of replacing the tree: `load_parameters` from a YAML directory (written to
a temporary directory outside /verif and /repo, removed at once), assignment of a new
ParameterNode, and `modify_parameters` of a real `Reform` (reads also happen INSIDE
`apply`, before and after the modifier).  In-place mutation of the live tree is generated
as well; it is modelled and compared, and claimed by nothing.

The oracle does not use the model: at every read the driver also evaluates
`system.parameters.<path>(date)` on the tree the system holds at that moment; every
route must give that object, a vector lookup must equal the element-wise scalar
lookups on it, and a date lookup the member in force at each date.
"""
from __future__ import annotations

import datetime
import fractions
import os
import shutil
import tempfile

import numpy
import yaml

from openfisca_core import periods
from openfisca_core.entities import build_entity
from openfisca_core.indexed_enums import Enum
from openfisca_core.parameters import ParameterNode
from openfisca_core.periods import DateUnit, Instant
from openfisca_core.reforms import Reform
from openfisca_core.simulations import SimulationBuilder
from openfisca_core.taxbenefitsystems import TaxBenefitSystem
from openfisca_core.variables import Variable

from common import Err, cbool, clist, copt, cstr, cz, errkind

PROP = "C07"
COQ_HEADER = "From Verif Require Import Cal Param ParamCache Corr_C07."
COQ_RUN = "Corr_C07.run"
SHARD = 60
ANCHORS = ["openfisca_core/taxbenefitsystems/tax_benefit_system.py", "openfisca_core/reforms/reform.py",
           "openfisca_core/parameters/parameter_node_at_instant.py",
           "openfisca_core/parameters/vectorial_parameter_node_at_instant.py",
           "openfisca_core/parameters/vectorial_asof_date_parameter_node_at_instant.py",
           "openfisca_core/tracers/tracing_parameter_node_at_instant.py",
           "openfisca_core/parameters/parameter_node.py", "openfisca_core/parameters/at_instant_like.py",
           "openfisca_core/parameters/helpers.py"]
RULE = ("three streams: (1) general, (2) date-indexed groups with 256-600 dated members in chronological order read "
        "by date vectors around positions 255/256/257, 511/512/513 and the last (model and oracle), (3) special "
        "numeric leaf values incl. both infinities in one group, name and date vectors, loads and reforms (oracle "
        "only).  General stream: a random parameter tree (leaves with 0-4 dated entries incl. nulls, nodes, tax scales, homogeneous groups "
        "of depth 1-3 with a member that is undefined at some dates, inhomogeneous groups, groups of before_/after_ "
        "dated members in and out of chronological order) and 5-18 operations: reads by the four "
        "routes at 2-3 'hot' dates (repeated, so the cache is hit) and at every boundary date +-1, to leaves, nodes, "
        "missing members and beyond leaves, with name vectors (str / Enum members / EnumArray / ints; unknown and "
        "empty keys; second-level vectors and fields) and date vectors; up to four systems (baseline, reforms with "
        "and without modifier, reforms of reforms), every operation on any of them, the same path and date re-read "
        "on the changed system and on its relatives in both orders after each change; load_parameters from a generated YAML "
        "directory (nodes as directories or files, index.yaml), assignment of a new node, Reform with reads inside "
        "apply before/after modify_parameters (1-3 range updates at leaf paths of any depth or at parameters of "
        "scale brackets, through update() or through the values_history alias; a bad path; a modifier returning "
        "None), modify_parameters on a non-reform, in-place update of the live tree.  A case is non-trivial when a "
        "date read through the system view is read again after the tree was replaced and the two answers differ; "
        "distinct as the whole JSON case")
TRUSTED = ["while a generated YAML directory is loaded, os.listdir is wrapped to list each directory in the order of the "
           "case (any order is a legal answer of a file system); members of a group are nevertheless compared sorted "
           "by name, because record arrays are built in sorted order",
           "conversion of Enum members / EnumArrays / ints to names inside __getitem__ is run for real and checked by "
           "the oracle; the model receives the names",
           "numpy record arrays, numpy.select broadcasting and datetime64 comparison are modelled as list operations"]
ASSUMPTIONS = ["a stream of special leaf values (+inf, -inf, -0.0, 1e300, 2^70, 5e-324; never NaN, which the code uses as "
               "its 'no such key' marker) is run on the implementation and judged by the oracle only (numeric "
               "equality, so -0.0 = 0.0); the Coq side gets KSkip for these cases",
               "indexing by DATES is not generated on groups whose members are nodes that declare their own members in "
               "different orders (the as-of variant stacks the records with numpy.asarray, which cannot combine "
               "different field orders: refused with varying exceptions, unmodelled); name vectors are",
               "parameter values are None or dyadic numbers (multiples of 1/4, |x| < 2^15), sent to the model as 4*x",
               "child names are ASCII identifiers that are not attributes of numpy arrays; dated members are named "
               "before_YYYY_MM_DD / after_YYYY_MM_DD (plus a few names without a date, which numpy reads as NaT)",
               "answers of the system-view and formula routes after an in-place mutation of the live tree are "
               "compared with the model but claimed by nothing (not a documented route, DESIGN.md C07)",
               "reads through the system view of a leaf that is undefined at the date raise ParameterNotFoundError "
               "while the parameter object returns None: both count as 'no value' in the oracle"]

VALID_KINDS = ("value", "value_meta", "bare")
DONE = [None, []]


# ---- conversions ---------------------------------------------------------------------

def D(iso):
    return datetime.date.fromisoformat(iso)


def O(iso):
    return D(iso).toordinal()


def iso(o):
    return datetime.date.fromordinal(o).isoformat()


SPECIAL = [False]      # while a special-values case runs: leaves are rendered as floats, not as 4*x


def v4(x):
    if x is None:
        return None
    if SPECIAL[0]:
        return float(x)
    fr = fractions.Fraction(float(x)) * 4
    if fr.denominator != 1:
        raise ValueError(f"value {x!r} is not a multiple of 1/4")
    return int(fr)


def cval(x):
    return copt(v4(x), cz)


def centry(e):
    o = cz(O(e["d"]))
    if e["k"] in VALID_KINDS:
        return f"({o}, YValue {cval(e['v'])})"
    return f"({o}, YExpected)"


def ctree(t):
    if t["t"] == "param":
        return "(TParam (yparam " + clist([centry(e) for e in t["entries"]]) + "))"
    if t["t"] == "scale":
        brs = []
        for b in t["brackets"]:
            fields = []
            for f in ("threshold", "rate", "amount", "average_rate"):
                fields.append("None" if b.get(f) is None else
                              "(Some (yparam " + clist([centry(e) for e in b[f]["entries"]]) + "))")
            brs.append("(mk_bracket " + " ".join(fields) + ")")
        return f"(TScale (mk_scale {cbool(t['single'])} {clist(brs)}))"
    return "(TNode " + clist([f"({cstr(n)}, {ctree(c)})" for n, c in t["children"]]) + ")"


def cpath(p):
    return clist([cstr(n) for n in p])


def cupd(u):
    return f"({cz(O(u['start']))}, {copt(u['stop'], lambda x: cz(O(x)))}, {cval(u['v'])})"


def ctail(t):
    if t["k"] == "whole":
        return "TWhole"
    if t["k"] == "vec":
        steps = [f"(SKeys {cpath(s[1])})" if s[0] == "keys" else f"(SField {cstr(s[1])})" for s in t["steps"]]
        return f"(TVec {cpath(t['keys'])} {clist(steps)})"
    return f"(TAsof {clist([cz(O(d)) for d in t['dates']])} {copt(t['field'], cstr)})"


ROUTE = {"system": "RSystem", "direct": "RDirect", "formula": "(RFormula false)", "traced": "(RFormula true)"}


def cop(o):
    k = o["op"]
    if k == "read":
        term = f"(Read {ROUTE[o['route']]} {cpath(o['path'])} {cz(O(o['date']))} {ctail(o['tail'])})"
    elif k == "load":
        term = f"(Load {ctree(o['tree'])})"
    elif k == "reform":
        term = "NewReform"
    elif k == "modify":
        ups = [f"(MAdd {cpath(u['path'])} {cstr(u['name'])} {ctree(u['tree'])})" if u.get("kind") == "add"
               else f"(MUpd {cpath(u['path'])} {cupd(u)})" for u in o["ups"]]
        term = f"(Modify {clist(ups)} {cbool(o['returns'])})"
    else:
        term = f"(Poke {cpath(o['path'])} {cupd(o)})"
    return f"({o.get('sys', 0)}%nat, {term})"


def coq_case(c):
    if c.get("special"):
        return "KSkip"
    return f"(KSeq {ctree(c['tree'])} {clist([cop(o) for o in c['ops']])})"


# ---- building real trees -----------------------------------------------------------------

def entry_data(e):
    k, v = e["k"], e.get("v")
    if k == "value":
        return {"value": v}
    if k == "value_meta":
        return {"value": v, "metadata": {"reference": "https://law.example/" + e["d"]}}
    if k == "bare":
        return v
    if k == "expected":
        return "expected"
    raise ValueError(k)


def param_data(entries, wrapped):
    values = {e["d"]: entry_data(e) for e in entries}
    if wrapped:
        return {"description": "generated", "values": values}
    return values


def tree_data(t):
    if t["t"] == "param":
        return param_data(t["entries"], t["wrapped"])
    if t["t"] == "scale":
        data = {"brackets": [{f: param_data(b[f]["entries"], b[f]["wrapped"])
                              for f in ("threshold", "rate", "amount", "average_rate") if b.get(f) is not None}
                             for b in t["brackets"]]}
        if t["single"]:
            data["metadata"] = {"type": "single_amount"}
        return data
    data = {n: tree_data(c) for n, c in t["children"]}
    if not t["children"]:
        data["description"] = "a group without members"   # {} alone would be read as a leaf
    return data


def write_yaml(path, data):
    with open(path, "w", encoding="utf-8") as f:
        yaml.safe_dump(data, f, sort_keys=False)


def write_dir(t, path, listing):
    """A node as a directory: nodes below as directories or files, as the case says.
    [listing]: directory -> its entries in the order of the case."""
    os.makedirs(path, exist_ok=True)
    entries = listing.setdefault(path, [])
    if t.get("index"):
        write_yaml(os.path.join(path, "index.yaml"), {"description": "generated group", "metadata": {"order": []}})
        entries.append("index.yaml")
    for n, c in t["children"]:
        if c["t"] == "node" and c.get("layout") == "dir":
            write_dir(c, os.path.join(path, n), listing)
            entries.append(n)
        else:
            fn = n + (".yml" if c.get("yml") else ".yaml")
            write_yaml(os.path.join(path, fn), tree_data(c))
            entries.append(fn)


class listed_in_order:
    """The order in which a directory is listed is the file system's business; the members of a loaded group
    are declared in that order, and some answers depend on it (which homogeneity error comes first, the
    positions used by date indexing).  While a generated directory is loaded, os.listdir gives the order of
    the case, so that the model is given the same tree."""

    def __init__(self, listing):
        self.listing = listing

    def __enter__(self):
        self.real = os.listdir
        real, listing = self.real, self.listing

        def listdir(path="."):
            names = real(path)
            want = listing.get(path)
            if want is None or sorted(want) != sorted(names):
                return names
            return list(want)
        os.listdir = listdir

    def __exit__(self, *a):
        os.listdir = self.real


def tmp_base():
    base = tempfile.gettempdir()
    for forbidden in ("/verif", "/repo"):
        if os.path.realpath(base).startswith(forbidden):
            raise RuntimeError("temporary directory is inside " + forbidden)
    return base


# ---- the tiny tax-benefit system ------------------------------------------------------------

PERSON = build_entity(key="person", plural="persons", label="someone", is_person=True)
PROBE = {"path": [], "tail": None}
SINK = []


class probe(Variable):
    value_type = float
    entity = PERSON
    definition_period = DateUnit.DAY
    label = "reads parameters(period).<path> and applies the tail"

    def formula(population, period, parameters):
        x = parameters(period)
        for n in PROBE["path"]:
            x = getattr(x, n)
        SINK.append(apply_tail(x, PROBE["tail"]))
        return numpy.zeros(population.count)


def new_system(tree):
    tbs = TaxBenefitSystem([PERSON])
    tbs.add_variable(probe)
    tbs.parameters = ParameterNode("", data=tree_data(tree))
    return tbs


ENUMS = {}


def enum_for(names):
    key = tuple(names)
    if key not in ENUMS:
        ENUMS[key] = Enum("Keys" + str(len(ENUMS)), [(n, "label " + n) for n in names])
    return ENUMS[key]


def make_key(keys, kind, universe):
    if kind == "str":
        return numpy.array(keys) if keys else numpy.array([], dtype=str)
    if kind == "int":
        return numpy.array([int(k) for k in keys])
    enum = enum_for(sorted(set(universe) | set(keys)))
    if kind == "enum":
        out = numpy.empty(len(keys), dtype=object)
        for i, k in enumerate(keys):
            out[i] = enum[k]
        return out
    return enum.encode(numpy.array(keys) if keys else numpy.array([], dtype=str))


def apply_tail(x, tail):
    if tail["k"] == "whole":
        return x
    if tail["k"] == "vec":
        r = x[make_key(tail["keys"], tail["kind"], tail.get("universe", []))]
        for j, s in enumerate(tail["steps"]):
            if s[0] == "keys":
                r = r[numpy.array(s[1]) if s[1] else numpy.array([], dtype=str)]
            else:
                vectorial = type(r).__name__.startswith("Vectorial")
                r = r[s[1]] if (j % 2 == 1 and vectorial) else getattr(r, s[1])
        return r
    r = x[numpy.array(tail["dates"], dtype="datetime64[D]")]
    if tail["field"] is not None:
        r = getattr(r, tail["field"])
    return r


SCALE_KIND = {"SingleAmountTaxScale": 0, "MarginalAmountTaxScale": 1, "LinearAverageRateTaxScale": 2,
              "MarginalRateTaxScale": 3}


def render_record(rec, dtype):
    if dtype.names:
        return ["node", [[n, render_record(rec[n], dtype[n])] for n in sorted(dtype.names)]]
    return v4(rec)


def render(x):
    """Canonical form of whatever a read gives (members sorted by name)."""
    if x is None:
        return None
    name = type(x).__name__
    if name == "TracingParameterNodeAtInstant":
        inner = type(x.parameter_node_at_instant).__name__
        if inner == "ParameterNodeAtInstant":
            return ["node", sorted([n, render(x[n])] for n in x)]      # through the wrapper
        vector = x.vector                                                  # through the wrapper's __getattr__
        if vector.ndim == 0:
            return render_record(vector[()], vector.dtype)
        return ["rows", [render_record(r, vector.dtype) for r in vector]]
    if name == "ParameterNodeAtInstant":
        return ["node", sorted([n, render(x[n])] for n in x)]
    if name in ("VectorialParameterNodeAtInstant", "VectorialAsofDateParameterNodeAtInstant"):
        if x.vector.ndim == 0:
            return render_record(x.vector[()], x.vector.dtype)
        return ["rows", [render_record(r, x.vector.dtype) for r in x.vector]]
    if name in SCALE_KIND:
        k = SCALE_KIND[name]
        xs = x.amounts if k in (0, 1) else x.rates
        return ["scale", k, [[v4(t), v4(r)] for t, r in zip(x.thresholds, xs)]]
    if isinstance(x, numpy.ndarray):
        if x.dtype.names:
            return ["rows", [render_record(r, x.dtype) for r in x]]
        if x.ndim == 0:
            return v4(x.item())
        return ["rows", [v4(e) for e in x.tolist()]]
    return v4(x)


def mk_instant(s):
    d = D(s)
    return Instant((d.year, d.month, d.day))


def date_arg(s, form):
    if form == 1:
        return mk_instant(s)
    if form == 2:
        return periods.period(s)
    return s


def reference(system, o):
    """system.parameters.<path>(date) on the tree the system holds NOW, and for indexed reads the
    declaration order and scalar members of the group (the oracle's side of the comparison)."""
    try:
        x = system.parameters
        for n in o["path"]:
            x = getattr(x, n)
        at = x(o["date"])
    except Exception as e:  # noqa: BLE001
        return {"error": errkind(e)}
    out = {"ref": render(at)}
    if o["tail"]["k"] != "whole" and type(at).__name__ == "ParameterNodeAtInstant":
        out["order"] = list(at)
        out["members"] = {n: render(at[n]) for n in at}        # scalar lookups node[name]
    return out


def do_read(system, o):
    route, tail = o["route"], o["tail"]
    log = []
    if route == "direct":
        x = system.parameters
        for n in o["path"]:
            x = getattr(x, n)
        r = x(date_arg(o["date"], o["form"] % 2))
        if not (r is None and tail["k"] == "whole"):
            r = apply_tail(r, tail)
    elif route == "system":
        x = system.get_parameters_at_instant(date_arg(o["date"], o["form"]))
        for j, n in enumerate(o["path"]):
            x = getattr(x, n)
        r = apply_tail(x, tail)
    else:
        PROBE["path"], PROBE["tail"] = o["path"], tail
        del SINK[:]
        sim = SimulationBuilder().build_default_simulation(system, 1)
        sim.trace = route == "traced"
        sim.calculate("probe", o["date"])
        r = SINK[0]
        if route == "traced":
            log = [[p.name, render(p.value)] for p in sim.tracer.trees[0].parameters]
    return [render(r), log]


def update_at(root, u):
    """Edit one parameter through one of its handles: update() on the parameter, the same through its
    backward-compatibility attribute values_history (the parameter itself), on a leaf of any depth or on a
    parameter of a scale bracket (scale.brackets[i].<field>)."""
    x = root
    for n in u["path"]:
        if type(x).__name__ == "ParameterScale" and n.isdigit():
            x = x.brackets[int(n)]
        else:
            x = getattr(x, n)
    if u.get("via") == "values_history":
        x = x.values_history
    x.update(start=mk_instant(u["start"]), stop=None if u["stop"] is None else mk_instant(u["stop"]), value=u["v"])


def add_at(root, u):
    """parameters.<path>.add_child(name, <a new parameter / node / scale built from data>)"""
    from openfisca_core.parameters import helpers
    x = root
    for n in u["path"]:
        x = getattr(x, n)
    x.add_child(u["name"], helpers._parse_child(".".join(u["path"] + [u["name"]]), tree_data(u["tree"]), None))


def snapshot_others(systems, me, dates):
    """what every OTHER system's own tree defines at the dates (for the frame part of the oracle)"""
    out = []
    for j, x in enumerate(systems):
        if x is not me:
            out.append([j, [render(x.parameters(d)) for d in dates]])
    return out


def exec_ops(systems, ops, out):
    """Run the operations; each names the system (index into [systems]) it is applied to.  A 'reform'
    operation builds a real Reform over that system; the reform joins [systems] as soon as its apply()
    starts, and apply() runs the next [inside] operations (on whichever systems they name)."""
    i = 0
    while i < len(ops):
        o = ops[i]
        k = o["op"]
        i += 1
        if o.get("sys", 0) >= len(systems):
            out.append([Err("EOther", "no such system"), []])
            continue
        system = systems[o.get("sys", 0)]
        if k == "reform":
            inside = ops[i:i + o["inside"]]
            i += len(inside)

            class GeneratedReform(Reform):
                def apply(self):
                    systems.append(self)
                    out.append(DONE)
                    exec_ops(systems, inside, out)

            GeneratedReform(system)
            continue
        try:
            if k == "read":
                ref = reference(system, o)
                ans = do_read(system, o) + [ref]
            elif k == "load":
                if o["how"] == "dir":
                    d = tempfile.mkdtemp(prefix="c07_", dir=tmp_base())
                    try:
                        listing = {}
                        write_dir(o["tree"], d, listing)
                        with listed_in_order(listing):
                            system.load_parameters(d)
                    finally:
                        shutil.rmtree(d, ignore_errors=True)
                else:
                    system.parameters = ParameterNode("", data=tree_data(o["tree"]))
                ans = DONE
            elif k == "modify":
                def modifier(parameters, o=o):
                    for u in o["ups"]:
                        if u.get("kind") == "add":
                            add_at(parameters, u)
                        else:
                            update_at(parameters, u)
                    return parameters if o["returns"] else None
                dates = sorted({u["start"] for u in o["ups"] if u.get("kind") != "add"}) or [o["ups"][0].get("at", "2000-01-01")]
                before = snapshot_others(systems, system, dates)
                try:
                    system.modify_parameters(modifier)
                finally:
                    after = snapshot_others(systems, system, dates)
                    leaked = [[j, d] for (j, b), (_, a) in zip(before, after) for d, x, y in zip(dates, b, a) if x != y]
                ans = [None, [], leaked]
            else:
                # which systems are bound to the very object that is mutated (for the oracle)
                shared = [j for j, x in enumerate(systems) if x.parameters is system.parameters]
                update_at(system.parameters, o)
                ans = [None, [], shared]
        except Exception as e:  # noqa: BLE001 - a refused operation is an observation
            ans = [Err(errkind(e), f"{type(e).__name__}: {e}"[:200]), []]
            if k == "read":
                ans.append(ref)
            if k == "modify":
                ans.append(leaked)
        out.append(ans)


def run_impl(c):
    out = []
    SPECIAL[0] = bool(c.get("special"))
    try:
        exec_ops([new_system(c["tree"])], c["ops"], out)
    finally:
        SPECIAL[0] = False
    return out


def obs_for_coq(c, obs):
    if c.get("special"):
        return None
    if isinstance(obs, Err):
        return obs
    return [a[:2] for a in obs]


# ---- the statement, evaluated on the implementation's answers ------------------------------------

def is_err(x):
    return isinstance(x, Err) or (isinstance(x, dict) and "error" in x)


def member(node, k):
    """child of a rendered node, or None"""
    if isinstance(node, list) and node and node[0] == "node":
        for n, c in node[1]:
            if n == k:
                return c
    return None


def is_node(v):
    return isinstance(v, list) and bool(v) and v[0] == "node"


def homogeneous(level):
    """The documented condition for fancy indexing, on rendered members: at every level all numbers, or all
    nodes with the same member names (as sets) whose members are homogeneous in turn."""
    if not level:
        return False
    if is_node(level[0]):
        names = {n for n, _ in level[0][1]}
        if not all(is_node(x) and {n for n, _ in x[1]} == names for x in level):
            return False
        return homogeneous([c for x in level for _, c in x[1]])
    return all(isinstance(x, (int, float)) and not isinstance(x, bool) for x in level)


def record_field_step(ref, tail):
    """some 'field' step is applied while the rows are still records of records (constructor defect)"""
    rows = [ref["members"].get(k) for k in tail["keys"]]
    for st in tail["steps"]:
        if st[0] == "field":
            nxt = [member(r, st[1]) for r in rows]
            if any(is_node(x) for x in nxt):
                return True
            rows = nxt
        else:
            keys = st[1] * len(rows) if len(st[1]) == 1 else st[1]
            if len(rows) == 1:
                rows = rows * len(keys)
            rows = [member(r, k) for r, k in zip(rows, keys)]
    return False


def has_empty_node(v):
    if isinstance(v, list) and v and v[0] == "node":
        return not v[1] or any(has_empty_node(c) for _, c in v[1])
    return False


def expected_vec(ref, tail):
    """Element-wise scalar lookups; None when some key has no member (an error is expected)."""
    members = ref["members"]
    rows = []
    for k in tail["keys"]:
        if k not in members:
            return None
        rows.append(members[k])
    if not rows:
        return None
    for s in tail["steps"]:
        if s[0] == "field":
            rows = [member(r, s[1]) for r in rows]
        else:
            keys = s[1]
            if len(keys) == 1:
                keys = keys * len(rows)
            elif len(rows) == 1:
                rows = rows * len(keys)
            if len(keys) != len(rows) or not keys:
                return None
            rows = [member(r, k) for r, k in zip(rows, keys)]
        if any(r is None for r in rows):
            return None
    return ["rows", rows]


def parse_after(name):
    if not name.startswith("after_"):
        return None
    try:
        y, m, d = name[len("after_"):].split("_")
        return datetime.date(int(y), int(m), int(d))
    except ValueError:
        return None


def expected_asof(ref, tail):
    """Under the precondition the code relies on (one 'before' member, declared first, then after_<date>
    members in chronological order): the member in force at each date.  None when it does not hold."""
    order = ref["order"]
    if not order or not order[0].startswith("before") or any(n.startswith("before") for n in order[1:]):
        return None
    dates = [parse_after(n) for n in order[1:]]
    if any(d is None for d in dates) or any(a >= b for a, b in zip(dates, dates[1:])) or not dates:
        return None
    rows = []
    for q in tail["dates"]:
        cur = order[0]
        for n, d in zip(order[1:], dates):
            if d <= D(q):
                cur = n
        rows.append(ref["members"][cur])
    if tail["field"] is not None:
        rows = [member(r, tail["field"]) for r in rows]
        if any(r is None for r in rows):
            return None
    return ["rows", rows]


def oracle(c, obs):
    if isinstance(obs, Err):
        return f"run: the sequence could not be run: {obs.kind} ({obs.msg})"
    if len(obs) != len(c["ops"]):
        return f"run: {len(c['ops'])} operations gave {len(obs)} answers"
    tainted = set()         # systems whose live tree was mutated in place: view routes not claimed any more
    for n, (o, a) in enumerate(zip(c["ops"], obs)):
        k = o["op"]
        me = o.get("sys", 0)
        if k == "poke":
            if not is_err(a[0]):
                tainted.update(a[2] if len(a) > 2 else [me])
            continue
        if k in ("load", "modify"):
            if k == "modify" and len(a) > 2 and a[2]:
                j, d = a[2][0]
                return (f"frame: operation {n} (modify_parameters of system {me}, updates "
                        f"{[(u['path'], u.get('via', u.get('kind')), u.get('start'), u.get('v')) for u in o['ups']]}) changed what "
                        f"system {j}'s own tree defines at {d}: a modifier works on a copy")
            if not is_err(a[0]) and (k == "load" or o["returns"]):
                tainted.discard(me)
            continue
        if k == "reform":
            # the reform is bound to the same tree object as its baseline
            if me in tainted:
                tainted.add(1 + sum(1 for x in c["ops"][:n] if x["op"] == "reform"))
            continue
        if k != "read":
            continue
        if me in tainted and o["route"] != "direct":
            continue
        got, ref, tail = a[0], a[2], o["tail"]
        where = (f"operation {n} ({o['route']} read on system {me} of {'.'.join(o['path']) or '<root>'} at "
                 f"{o['date']}, {tail['k']})")
        if "error" in ref:
            if not is_err(got):
                return f"agree: {where} gives {got} but system.parameters.<path>(date) raises {ref['error']}"
            continue
        cur = ref["ref"]
        if tail["k"] == "whole":
            if cur is None:
                if not (got is None or (is_err(got) and got.kind == "ENotFound")):
                    return f"agree: {where} gives {got}; the current tree defines no value at that date"
            elif is_err(got) or got != cur:
                return f"agree: {where} gives {got}; system.parameters.<path>(date) on the current tree gives {cur}"
            continue
        if "members" not in ref:
            if not is_err(got):
                return f"index: {where} indexes something that is not a group and gives {got}"
            continue
        if tail["k"] == "vec":
            exp = expected_vec(ref, tail)
            if exp is None:
                if not is_err(got):
                    return f"vector: {where} with keys {tail['keys']} {tail['steps']} has a key without member but gives {got}"
            elif is_err(got):
                # Refusals are the code's documented limits when the group is not homogeneous at the date
                # (members of different kinds or with different member NAMES - their order is no reason).
                # A field that is itself a record array hits the constructor defect reported with C07:
                # not claimed either.
                field_of_records = any(isinstance(r, list) and r and r[0] == "node" for r in exp[1]) and \
                    any(st[0] == "field" for st in tail["steps"])
                if homogeneous(list(ref["members"].values())) and not field_of_records and not record_field_step(ref, tail):
                    return (f"vector: {where} with keys {tail['keys']} {tail['steps']} raises {got.kind} ({got.msg}) "
                            f"on a homogeneous group; the scalar lookups give {exp}")
            elif got != exp:
                return (f"vector: {where} with keys {tail['keys']} {tail['steps']} gives {got}; the scalar lookups "
                        f"give {exp}")
        else:
            exp = expected_asof(ref, tail)
            if exp is None or not tail["dates"]:
                continue        # precondition not met, or an empty lookup: nothing is promised
            if not is_err(got):
                if got != exp:
                    return f"asof: {where} with dates {tail['dates']} gives {got}; the members in force are {exp}"
            elif got.kind == "EIndex" and not any(has_empty_node(m) for m in ref["members"].values()):
                # (a group with a member-less node is refused by the homogeneity check with an IndexError:
                # a refusal of a degenerate group, not a wrong value)
                return f"asof: {where} with dates {tail['dates']} raises {got.kind}; the members in force are {exp}"
    return None


def nontrivial(c, obs):
    """A system-view read at a date, a replacement of the tree, the same read again with another answer."""
    if isinstance(obs, Err):
        return False
    seen = {}
    for o, a in zip(c["ops"], obs):
        if o["op"] == "read" and o["route"] in ("system", "formula", "traced") and o["tail"]["k"] == "whole":
            key = (o.get("sys", 0), tuple(o["path"]), o["date"])
            r = repr(a[0])
            if key in seen and seen[key] != r:
                return True
            seen[key] = r
    return False


def classify(c, obs):
    kinds = {o["op"] for o in c["ops"]}
    tails = {o["tail"]["k"] for o in c["ops"] if o["op"] == "read"}
    if c.get("special"):
        return "special-values/" + "+".join(sorted(tails))
    if c.get("big"):
        return "long-dated-group/" + "+".join(sorted(tails))
    tag = "+".join(sorted(kinds - {"read"})) or "reads-only"
    nsys = 1 + sum(1 for o in c["ops"] if o["op"] == "reform")
    return f"{min(nsys, 4)}sys:" + tag + "/" + "+".join(sorted(tails))


# ---- generation -----------------------------------------------------------------------------

BASES = ["2000-01-01", "2015-12-10", "2016-02-05", "2019-12-20", "1999-12-01", "2024-02-10", "2013-06-01"]
VALUES = [None, None, 0, 1, 2, 3, 7, 10, -5, 4.5, 0.25, 100, 1000.75, -0.5, 550, 600]
NEWVALUES = [None, 20, 30.5, 11, 42, 0, -1, 0.75, 99, 12.25]
NAMES = ["amount", "rate_a", "b2", "min_age", "c2", "zone_1", "xx", "housing", "k9", "dd", "grp", "born"]
ZNAMES = ["z1", "z2", "z3", "zone_a", "kk", "single", "couple"]
FNAMES = ["x", "y", "w", "rate_b"]
UNKNOWN = ["zz", "z9", "nope"]
BIRTHS = ["1950-01-01", "1960-07-01", "1975-03-15", "1980-01-01", "1989-12-31", "1990-01-01", "2000-02-29", "2005-06-01"]


def gen_entries(rng, ords, nulls=True):
    entries = []
    for o in ords:
        r = rng.random()
        k = "value" if r < 0.45 else "value_meta" if r < 0.55 else "bare" if r < 0.9 else "expected"
        e = {"d": iso(o), "k": k}
        if k in VALID_KINDS:
            e["v"] = rng.choice(VALUES if nulls else VALUES[2:])
        entries.append(e)
    rng.shuffle(entries)
    return entries


def gen_leaf(rng, pool, defined=False):
    """defined: a first non-null entry before every pooled date (so the leaf has a value everywhere in the pool)."""
    n = rng.choice([0, 1, 1, 2, 2, 3, 4])
    ords = sorted(rng.sample(pool, min(n, len(pool))))
    entries = gen_entries(rng, ords, nulls=not defined)
    if defined:
        entries = [e for e in entries if e["k"] in VALID_KINDS]
        entries.append({"d": iso(pool[0] - 400), "k": "bare", "v": rng.choice(VALUES[2:])})
    return {"t": "param", "wrapped": bool(entries) and rng.random() < 0.5, "entries": entries}


def gen_scale(rng, pool):
    main = rng.choice(["rate", "rate", "amount", "average_rate"])
    single = main == "amount" and rng.random() < 0.4
    brackets, thr = [], 0
    for _ in range(rng.choice([1, 2, 2, 3])):
        b = {}
        leaf = gen_leaf(rng, pool, defined=rng.random() < 0.6)
        for e in leaf["entries"]:
            if e["k"] in VALID_KINDS and e["v"] is not None:
                thr += rng.choice([0, 5, 10, 100, 0.5])
                e["v"] = thr
        b["threshold"] = leaf
        leaf = gen_leaf(rng, pool, defined=rng.random() < 0.6)
        for e in leaf["entries"]:
            if e["k"] in VALID_KINDS and e["v"] is not None:
                e["v"] = rng.choice([0, 0.25, 0.5, 0.75, 1, 10, 200])
        b[main] = leaf
        brackets.append(b)
    return {"t": "scale", "single": bool(single), "brackets": brackets}


def gen_group(rng, pool, depth):
    """A group meant for fancy indexing: [depth] levels of nodes over leaves."""
    def level(d, names_by_level):
        if d == 0:
            return gen_leaf(rng, pool, defined=rng.random() < (0.8 if depth == 1 else 0.97))
        names = list(names_by_level[d - 1])
        if rng.random() < 0.5:
            rng.shuffle(names)            # siblings declare the same members, each in its own order
        return {"t": "node", "layout": "file", "children": [[n, level(d - 1, names_by_level)] for n in names]}
    names_by_level = [rng.sample(FNAMES, rng.choice([1, 2, 2, 3])) for _ in range(depth - 1)]
    names_by_level.append(rng.sample(ZNAMES, rng.choice([1, 2, 3, 3, 4])))
    g = level(depth, names_by_level)
    g["group"] = True
    r = rng.random()
    if r < 0.15 and g["children"]:                       # break the homogeneity somewhere
        victim = rng.choice(g["children"])
        how = rng.choice(["leaf", "scale", "drop", "extra", "empty"])
        if how == "leaf" or victim[1]["t"] == "param":
            victim[1] = gen_scale(rng, pool) if how == "scale" else \
                {"t": "node", "layout": "file", "children": [["x", gen_leaf(rng, pool, True)]]} if victim[1]["t"] == "param" \
                else gen_leaf(rng, pool, True)
        elif how == "scale":
            victim[1] = gen_scale(rng, pool)
        elif how == "drop":
            victim[1]["children"] = victim[1]["children"][1:]
        elif how == "extra":
            victim[1]["children"] = victim[1]["children"] + [["extra", gen_leaf(rng, pool, True)]]
        else:
            victim[1]["children"] = []
    return g


def gen_asof(rng, pool):
    k = rng.choice([1, 2, 2, 3, 4])
    ds = sorted(rng.sample(BIRTHS, k))
    nested = rng.random() < 0.2
    fields = rng.sample(FNAMES, 2)

    def val():
        if nested:
            return {"t": "node", "layout": "file", "children": [[f, gen_leaf(rng, pool, defined=True)] for f in fields]}
        return gen_leaf(rng, pool, defined=rng.random() < 0.9)
    children = [["before_" + ds[0].replace("-", "_"), val()]]
    children += [["after_" + d.replace("-", "_"), val()] for d in ds]
    r = rng.random()
    if r < 0.08:
        children = children[1:]                              # no 'before' member
    elif r < 0.18:
        rng.shuffle(children)                                # not in chronological order
    elif r < 0.23:
        children.insert(rng.randrange(len(children) + 1), ["before_1900_01_01", val()])
    elif r < 0.27:
        children.append(["zz", val()])                       # a member without a date: NaT
    elif r < 0.30:
        children = children[:1]                              # no dated member at all
    return {"t": "node", "layout": rng.choice(["file", "file", "dir"]), "asof": True, "children": children}


def gen_node(rng, pool, depth):
    names = rng.sample(NAMES, rng.choice([2, 3, 4, 5]) if depth == 0 else rng.choice([0, 1, 1, 2, 2, 3, 3]))
    children = []
    for n in names:
        r = rng.random()
        if r < 0.40 or depth >= 2:
            children.append([n, gen_leaf(rng, pool)])
        elif r < 0.52:
            children.append([n, gen_node(rng, pool, depth + 1)])
        elif r < 0.60:
            children.append([n, gen_scale(rng, pool)])
        elif r < 0.88:
            children.append([n, gen_group(rng, pool, rng.choice([1, 1, 2, 2, 3]))])
        else:
            children.append([n, gen_asof(rng, pool)])
    return {"t": "node", "layout": rng.choice(["dir", "dir", "file"]), "index": rng.random() < 0.2,
            "children": children}


def all_paths(t, prefix=()):
    """(path, subtree) of every node and leaf, the root included"""
    out = [(list(prefix), t)]
    if t["t"] == "node":
        for n, c in t["children"]:
            out += all_paths(c, prefix + (n,))
    return out


def tree_dates(t, acc):
    if t["t"] == "param":
        acc.update(O(e["d"]) for e in t["entries"] if O(e["d"]) > 700000)
    elif t["t"] == "node":
        for _, c in t["children"]:
            tree_dates(c, acc)
    else:
        for b in t["brackets"]:
            for f in b:
                if b[f] is not None:
                    tree_dates(b[f], acc)
    return acc


def revalue(rng, t, pool):
    """Same shape, other histories (what a reloaded directory usually is)."""
    if t["t"] == "param":
        if rng.random() < 0.5:
            return t
        defined = any(O(e["d"]) < pool[0] for e in t["entries"])
        return gen_leaf(rng, pool, defined=defined)
    if t["t"] == "scale":
        return gen_scale(rng, pool) if rng.random() < 0.5 else t
    out = dict(t)
    out["children"] = [[n, revalue(rng, c, pool)] for n, c in t["children"]]
    return out


def gen_keys(rng, names, n=None):
    n = rng.choice([1, 2, 3, 3, 4, 6]) if n is None else n
    keys = [rng.choice(names) for _ in range(n)] if names else [rng.choice(UNKNOWN) for _ in range(n)]
    r = rng.random()
    if r < 0.16 and keys:
        keys[rng.randrange(len(keys))] = rng.choice(UNKNOWN)
    elif r < 0.19:
        keys = []
    return keys


def group_depth(t):
    d = 0
    while t["t"] == "node" and t["children"]:
        t = t["children"][0][1]
        d += 1
    return d


def same_orders(children):
    """do sibling nodes declare their members in the same order, at every level?"""
    nodes = [c for _, c in children if c["t"] == "node"]
    if not nodes:
        return True
    orders = {tuple(n for n, _ in c["children"]) for c in nodes}
    return len(orders) == 1 and same_orders([x for c in nodes for x in c["children"]])


def gen_tail(rng, sub):
    """A tail for a read that ends on [sub]."""
    if sub["t"] != "node" or rng.random() < 0.25:
        if rng.random() < 0.97 or sub["t"] == "node":
            return {"k": "whole"}
        return {"k": "vec", "keys": ["z1"], "kind": "str", "universe": [], "steps": []}   # a leaf / scale indexed
    names = [n for n, _ in sub["children"]]
    if sub.get("asof") or (rng.random() < 0.04 and same_orders(sub["children"])):
        ds = set()
        for n in names:
            d = parse_after(n)
            if d is not None:
                ds.update((d.toordinal() - 1, d.toordinal(), d.toordinal() + 1))
        ds = sorted(ds) or [O("1990-01-01")]
        dates = [iso(rng.choice(ds)) for _ in range(rng.choice([0, 1, 2, 3, 4, 6]))]
        if rng.random() < 0.3:
            dates += ["1900-01-01", "2030-12-31"]
        field = None
        first = sub["children"][0][1] if sub["children"] else None
        if first is not None and first["t"] == "node" and rng.random() < 0.8:
            field = rng.choice([n for n, _ in first["children"]] + ["nope"]) if first["children"] else "nope"
        return {"k": "asof", "dates": dates, "field": field}
    keys = gen_keys(rng, names)
    kind = rng.choice(["str", "str", "str", "enum", "enum", "enumarray", "enumarray"])
    if rng.random() < 0.03:
        keys, kind = [str(rng.randrange(1, 4)) for _ in range(rng.choice([1, 2]))], "int"
    steps = []
    cur = sub["children"][0][1] if sub["children"] else None
    while cur is not None and cur["t"] == "node" and cur["children"] and rng.random() < 0.75:
        sub_names = [n for n, _ in cur["children"]]
        if rng.random() < 0.5:
            n = rng.choice(sub_names + ["nope"]) if rng.random() < 0.1 else rng.choice(sub_names)
            steps.append(["field", n])
            cur = dict(cur["children"]).get(n)
        else:
            r = rng.random()
            n = 1 if r < 0.15 else max(1, len(keys)) + (1 if r > 0.95 else 0)
            steps.append(["keys", gen_keys(rng, sub_names, n)])
            cur = cur["children"][0][1]
    if rng.random() < 0.03:
        steps.append(rng.choice([["field", "x"], ["keys", ["x"]]]))          # one step too many
    return {"k": "vec", "keys": keys, "kind": kind, "universe": names, "steps": steps}


def gen_read(rng, tree, hot, dates, route=None, path=None, date=None):
    paths = all_paths(tree)
    r = rng.random()
    if path is not None:
        sub = dict((tuple(p), s) for p, s in paths).get(tuple(path))
        if sub is None:
            path = None
    if path is None:
        leaves = [(p, s) for p, s in paths if s["t"] != "node"]
        groups = [(p, s) for p, s in paths if s["t"] == "node" and p]
        if r < 0.45 and leaves:
            path, sub = rng.choice(leaves)
        elif r < 0.85 and groups:
            marked = [(p, s) for p, s in groups if s.get("group") or s.get("asof")]
            path, sub = rng.choice(marked if marked and rng.random() < 0.9 else groups)
        elif r < 0.90:
            path, sub = [], tree
        elif r < 0.96:
            p, s = rng.choice(paths)
            path, sub = p + [rng.choice(["missing", "zz"])], {"t": "param", "entries": [], "wrapped": False}
        else:
            path, sub = rng.choice(paths)
            path = path + ["sub"] if sub["t"] != "node" else path
    if date is None:
        date = rng.choice(hot) if rng.random() < 0.6 or not dates else iso(rng.choice(dates) + rng.choice([-1, 0, 0, 1]))
    return {"op": "read", "route": route or rng.choice(["system", "system", "direct", "formula", "traced"]),
            "path": path, "date": date, "form": rng.randrange(3), "tail": gen_tail(rng, sub)}


def scale_params(tree):
    """paths of the parameters of scale brackets: <scale path> + [index, field]"""
    out = []
    for p, s_ in all_paths(tree):
        if s_["t"] == "scale":
            for i, b in enumerate(s_["brackets"]):
                out += [p + [str(i), f] for f in ("threshold", "rate", "amount", "average_rate") if b.get(f) is not None]
    return out


def gen_update(rng, tree, pool, bad=False):
    leaves = [p for p, s in all_paths(tree) if s["t"] == "param"]
    brackets = scale_params(tree)
    a, b = sorted((rng.choice(pool), rng.choice(pool)))
    v = rng.choice(NEWVALUES)
    if bad or not leaves:
        others = [p for p, s in all_paths(tree) if s["t"] != "param"]
        r = rng.random()
        if r < 0.4:
            path = rng.choice(others)
        elif r < 0.6 and brackets:
            path = rng.choice(brackets)
            path = path[:-2] + rng.choice([["7", path[-1]], [path[-2], "nope"], [path[-2]], path[-2:] + ["x"]])
        else:
            path = rng.choice(leaves or [[]]) + ["zz"]
    elif brackets and rng.random() < 0.15:
        path = rng.choice(brackets)
        v = rng.choice([0, 0.25, 0.5, 5, 10, 100])           # keeps scale arithmetic on generated values exact
    else:
        path = rng.choice(leaves)
    return {"path": path, "via": rng.choice(["update", "update", "values_history"]), "start": iso(a),
            "stop": iso(b) if rng.random() < 0.5 else None, "v": v}


def reshuffled_copy(rng, t, pool):
    """Same structure as [t] with other values and, at every level, another declaration order."""
    if t["t"] != "node":
        return gen_leaf(rng, pool, defined=True) if t["t"] == "param" else t
    ch = [[n, reshuffled_copy(rng, c, pool)] for n, c in t["children"]]
    rng.shuffle(ch)
    return {"t": "node", "layout": "file", "children": ch}


def gen_add(rng, tree, pool):
    """add_child in a modifier: mostly a new sibling sub-group of a group of depth >= 2 (same members as its
    siblings, declared in another order); sometimes a new leaf somewhere, or a name that is taken."""
    paths = all_paths(tree)
    groups = [(p, s) for p, s in paths if s.get("group") and s["children"] and s["children"][0][1]["t"] == "node"]
    r = rng.random()
    if groups and r < 0.7:
        p, g = rng.choice(groups)
        free = [n for n in ZNAMES + ["lodger", "owner"] if n not in dict(g["children"])]
        return {"kind": "add", "path": p, "name": rng.choice(free), "tree": reshuffled_copy(rng, rng.choice(g["children"])[1], pool)}
    nodes = [(p, s) for p, s in paths if s["t"] == "node"]
    p, nd = rng.choice(nodes)
    taken = [n for n, _ in nd["children"]]
    if taken and r < 0.8:
        return {"kind": "add", "path": p, "name": rng.choice(taken), "tree": gen_leaf(rng, pool, True)}     # ValueError
    if r < 0.9:
        leaves = [q for q, s in paths if s["t"] != "node"]
        if leaves:
            return {"kind": "add", "path": rng.choice(leaves), "name": "more", "tree": gen_leaf(rng, pool, True)}
    return {"kind": "add", "path": p, "name": rng.choice([n for n in ["more", "other", "lodger"] if n not in taken]),
            "tree": gen_leaf(rng, pool, True)}


def shape_after(tree, ups):
    """the shape of the tree after the modifier items (None when one of them is refused)"""
    import copy
    t = copy.deepcopy(tree)
    for u in ups:
        if u.get("kind") != "add":
            continue
        x = t
        for n in u["path"]:
            x = dict(x["children"]).get(n) if x["t"] == "node" else None
            if x is None:
                return None
        if x["t"] != "node" or u["name"] in dict(x["children"]):
            return None
        x["children"].append([u["name"], u["tree"]])
    return t


def gen_case(rng):
    """One baseline (system 0) and up to three reforms (over the baseline or over a reform); every operation
    names its system.  shape[k]: the tree system k holds (for choosing paths); base[k]: its baseline."""
    base_ord = O(rng.choice(BASES))
    pool = list(range(base_ord, base_ord + 30))
    tree = gen_node(rng, pool, 0)
    tree["layout"] = "dir"
    shape, base = [tree], [None]
    dates = sorted(tree_dates(tree, set()))
    hot = [iso(rng.choice(pool)) for _ in range(rng.choice([2, 2, 3]))]
    ops = []
    n_ops = rng.choice([5, 6, 8, 10, 12, 14, 16, 18])
    last_read = None            # a whole read through a view route: (path, date), repeated on several systems

    def pick_system():
        if len(shape) == 1 or rng.random() < 0.35:
            return len(shape) - 1
        return rng.randrange(len(shape))

    def related(k):
        """the systems connected to k by 'is a reform of'"""
        out, changed = {k}, True
        while changed:
            changed = False
            for j in range(len(shape)):
                if base[j] is not None and (j in out) != (base[j] in out):
                    out.update((j, base[j]))
                    changed = True
        return sorted(out)

    def reread(systems_):
        """the reads that tell a stale or foreign view from the system's own: same path and date"""
        for j in systems_:
            again = dict(last_read, sys=j, route=rng.choice(["system", "system", "formula", "traced"]),
                         form=rng.randrange(3))
            ops.append(again)

    while len(ops) < n_ops:
        r = rng.random()
        k = pick_system()
        if r < 0.58:
            o = gen_read(rng, shape[k], hot, dates)
            o["sys"] = k
            if o["route"] != "direct" and o["tail"]["k"] == "whole":
                last_read = o
            ops.append(o)
            continue
        if r < 0.72:
            new = revalue(rng, shape[k], pool) if rng.random() < 0.75 else gen_node(rng, pool, 0)
            new = dict(new, layout="dir")
            if last_read is not None and rng.random() < 0.5:
                reread([j for j in related(k) if rng.random() < 0.7])        # fill the caches before the change
            ops.append({"op": "load", "sys": k, "how": rng.choice(["dir", "dir", "assign"]), "tree": new})
            shape[k] = new
            dates = sorted(tree_dates(new, set(dates)))
            changed = k
        elif r < 0.84 and len(shape) < 4:
            ops.append({"op": "reform", "sys": k, "inside": 0})
            shape.append(shape[k])
            base.append(k)
            changed = len(shape) - 1
        elif r < 0.96:
            reforms = [j for j in range(len(shape)) if base[j] is not None]
            if not reforms and len(shape) < 4 and rng.random() < 0.9:
                ops.append({"op": "reform", "sys": k, "inside": 0})
                shape.append(shape[k])
                base.append(k)
                reforms = [len(shape) - 1]
                if last_read is not None and rng.random() < 0.6:      # a read inside apply, before the modifier
                    reread([reforms[0]])
            k = rng.choice(reforms) if reforms and rng.random() < 0.95 else k
            src = shape[base[k]] if base[k] is not None else shape[k]      # the modifier gets the BASELINE's tree
            bad = rng.random() < 0.06
            ups = [gen_update(rng, src, pool) for _ in range(rng.choice([1, 1, 2, 3]))]
            if bad:
                ups.insert(rng.randrange(len(ups) + 1), gen_update(rng, src, pool, bad=True))
            if rng.random() < 0.35:
                ups.insert(rng.randrange(len(ups) + 1), gen_add(rng, src, pool))
            returns = rng.random() < 0.94
            ops.append({"op": "modify", "sys": k, "ups": ups, "returns": returns})
            after = shape_after(src, ups)
            if base[k] is not None and returns and not bad and after is not None:
                shape[k] = after
            for u in ups:
                if u.get("kind") != "add":
                    dates = sorted(set(dates) | {O(u["start"])} | ({O(u["stop"]) + 1} if u["stop"] else set()))
            changed = k
            added = [u for u in ups if u.get("kind") == "add" and u["tree"]["t"] == "node"]
            if added and shape[k] is after and rng.random() < 0.9:
                # two-level lookups on the group that got a new sub-group, the new one included
                u = added[0]
                grp = dict((tuple(p), s_) for p, s_ in all_paths(shape[k]))[tuple(u["path"])]
                for _ in range(rng.choice([1, 2])):
                    o = gen_read(rng, shape[k], hot, dates, path=u["path"])
                    o["sys"] = k
                    if o["tail"]["k"] == "vec" and grp["children"] and o["tail"]["keys"] and o["tail"]["kind"] != "int":
                        o["tail"]["keys"][rng.randrange(len(o["tail"]["keys"]))] = u["name"]
                        o["tail"]["universe"] = [n for n, _ in grp["children"]]
                    ops.append(o)
        else:
            u = gen_update(rng, shape[k], pool, bad=rng.random() < 0.1)
            ops.append(dict(u, op="poke", sys=k))
            changed = k
        if last_read is not None and rng.random() < 0.8:
            # after the change: the changed system first or last, and the systems related to it
            others = [j for j in related(changed) if j != changed and rng.random() < 0.8]
            order = [changed] + others if rng.random() < 0.5 else others + [changed]
            reread(order)
            if others and rng.random() < 0.5:
                reread([rng.choice(others)])
    # how many of the operations after each 'reform' run inside its apply()
    for i, o in enumerate(ops):
        if o["op"] == "reform":
            nxt = next((j for j in range(i + 1, len(ops)) if ops[j]["op"] == "reform"), len(ops))
            o["inside"] = rng.choice([0, 0, nxt - i - 1, rng.randrange(0, nxt - i)]) if nxt > i + 1 else 0
    return {"tree": tree, "ops": ops}


# ---- at scale: date-indexed groups with hundreds of dated members ------------------------------------

def one_leaf(v, d="1940-01-01"):
    return {"t": "param", "wrapped": False, "entries": [{"d": d, "k": "bare", "v": v}]}


def gen_big_asof_case(rng, n=None):
    """A group before_X / after_Y1 ... after_Yn with n in 256..600 (one member every 30 days from 1950), in
    chronological order; date vectors around the positions 255/256/257, 511/512/513 and the last one."""
    n = n or rng.choice([256, 257, 300, 511, 513, 600])
    first = O("1950-01-01")
    ords = [first + 30 * i for i in range(n)]
    children = [["before_1950_01_01", one_leaf(0)]]
    children += [["after_" + iso(o).replace("-", "_"), one_leaf(i + 1)] for i, o in enumerate(ords)]
    tree = {"t": "node", "layout": "dir", "children": [
        ["born", {"t": "node", "layout": "file", "asof": True, "children": children}],
        ["amount", one_leaf(7)]]}
    marks = sorted({j for j in (0, 1, 200, 254, 255, 256, 257, 300, 510, 511, 512, 513, n - 2, n - 1) if j < n})
    ops = []

    def lookup(k, route):
        js = [rng.choice(marks) for _ in range(rng.choice([2, 3, 5]))] + [rng.choice([m for m in marks if m >= 255])]
        dates = [iso(ords[j] + rng.choice([-1, 0, 0, 1, 29])) for j in js]
        return {"op": "read", "sys": k, "route": route, "path": ["born"], "date": "2016-06-01", "form": rng.randrange(3),
                "tail": {"k": "asof", "dates": dates, "field": None}}
    ops.append(lookup(0, rng.choice(["system", "direct"])))
    ops.append({"op": "reform", "sys": 0, "inside": rng.choice([0, 1])})
    ops.append(lookup(1, rng.choice(["formula", "traced"])))
    if rng.random() < 0.5:
        ops.append({"op": "load", "sys": 0, "how": rng.choice(["dir", "assign"]), "tree": tree})
        ops.append(lookup(0, rng.choice(["system", "traced", "formula"])))
    ops.append(lookup(rng.choice([0, 1]), rng.choice(["system", "direct", "formula", "traced"])))
    return {"tree": tree, "ops": ops, "big": True}


# ---- special numeric values: judged by the oracle only ------------------------------------------------

INF = float("inf")
SPECIALS = [INF, -INF, INF, -INF, -0.0, 0.0, 1e300, -1e300, 2.0 ** 70, 5e-324, 1.5, -2.25, 3, 1e-300]


def special_leaf(rng, pool):
    entries = [{"d": iso(pool[0] - 400), "k": rng.choice(["bare", "value"]), "v": rng.choice(SPECIALS)}]
    for o in rng.sample(pool, rng.choice([0, 0, 1, 2])):
        entries.append({"d": iso(o), "k": "bare", "v": rng.choice(SPECIALS + [None])})
    rng.shuffle(entries)
    return {"t": "param", "wrapped": False, "entries": entries}


def special_tree(rng, pool):
    zs = rng.sample(ZNAMES, rng.choice([2, 3, 4]))
    fs = rng.sample(FNAMES, 2)
    flat = {"t": "node", "layout": "file", "group": True, "children": [[z, special_leaf(rng, pool)] for z in zs]}
    if rng.random() < 0.7:                                # the two infinities side by side
        flat["children"][0][1] = one_leaf(INF)
        flat["children"][1][1] = one_leaf(-INF)
    nested = {"t": "node", "layout": "file", "group": True,
              "children": [[z, {"t": "node", "layout": "file",
                                "children": [[f, special_leaf(rng, pool)] for f in rng.sample(fs, 2)]}] for z in zs]}
    ds = sorted(rng.sample(BIRTHS, rng.choice([2, 3])))
    dated = {"t": "node", "layout": "file", "asof": True,
             "children": [["before_" + ds[0].replace("-", "_"), special_leaf(rng, pool)]] +
                         [["after_" + d.replace("-", "_"), special_leaf(rng, pool)] for d in ds]}
    return {"t": "node", "layout": "dir", "children": [["ceil", flat], ["nest", nested], ["born", dated],
                                                        ["amount", special_leaf(rng, pool)]]}


def gen_special_case(rng):
    base_ord = O(rng.choice(BASES))
    pool = list(range(base_ord, base_ord + 30))
    tree = special_tree(rng, pool)
    shape = [tree]
    hot = [iso(rng.choice(pool)) for _ in range(2)]
    dates = sorted(tree_dates(tree, set()))
    ops = []
    for _ in range(rng.choice([6, 8, 10, 12])):
        r = rng.random()
        k = rng.randrange(len(shape))
        if r < 0.8:
            path = rng.choice([["ceil"], ["ceil"], ["nest"], ["nest"], ["born"], ["amount"], ["ceil", shape[k]["children"][0][1]["children"][0][0]]])
            o = gen_read(rng, shape[k], hot, dates, path=path)
            o["sys"] = k
            if o["tail"]["k"] == "vec":
                o["tail"]["kind"] = rng.choice(["str", "str", "enum", "enumarray"])
            ops.append(o)
        elif r < 0.9:
            new = special_tree(rng, pool)
            ops.append({"op": "load", "sys": k, "how": rng.choice(["dir", "assign"]), "tree": new})
            shape[k] = new
        elif len(shape) < 3:
            ops.append({"op": "reform", "sys": k, "inside": 0})
            shape.append(shape[k])
    return {"tree": tree, "ops": ops, "special": True}


def generate(rng, tier):
    n = {"quick": 1000, "escalated": 3000, "thorough": 12000}[tier]
    n_big = {"quick": 6, "escalated": 12, "thorough": 40}[tier]
    n_special = {"quick": 80, "escalated": 200, "thorough": 1500}[tier]
    cases = [gen_case(rng) for _ in range(n)]
    cases += [gen_big_asof_case(rng) for _ in range(n_big)]
    cases += [gen_special_case(rng) for _ in range(n_special)]
    return cases


# ---- failing-input search helpers -------------------------------------------------------------

def flatten(c):
    """The same operations with no operation inside apply() (the model does not distinguish)."""
    ops = [dict(o, inside=0) if o["op"] == "reform" else o for o in c["ops"]]
    return dict(c, ops=ops)


def shrink(c, still_fails):
    cur = flatten(c)
    if not still_fails(cur):
        return None
    progress = True
    while progress:
        progress = False
        i = 0
        while i < len(cur["ops"]):
            if cur["ops"][i]["op"] == "reform":       # removing it would renumber the systems
                i += 1
                continue
            cand = dict(cur, ops=cur["ops"][:i] + cur["ops"][i + 1:])
            if still_fails(cand):
                cur, progress = cand, True
            else:
                i += 1
    return cur


def neighbours(c, rng):
    out = [flatten(c)]
    for k in range(1, len(c["ops"]) + 1):
        out.append(dict(flatten(c), ops=flatten(c)["ops"][:k]))
    return out
