"""C10 - group aggregations and projections equal their per-group definitions.

A case is one primitive of GroupPopulation / Population / the projectors applied to one
membership (persons -> groups with roles, in some storage order) and one value array.
The implementation driver builds real Population / GroupPopulation objects (through
SimulationBuilder.create_entities / declare_*_entity, then members_entity_id and
members_role are set directly so that every storage order and empty groups anywhere can
be produced) and calls the real method.  The oracle re-evaluates the property's
statement with naive per-group Python loops, independently of numpy, of the
implementation and of the Coq model.

Values travel as integers: ints as themselves, bools as 0/1, floats are dyadic
(multiples of 1/4) and are scaled by 4 on the way in and out (exactness is checked with
fractions.Fraction; an inexact result raises).  +-inf are the strings "inf" / "-inf".
"""
from __future__ import annotations

import fractions
import math

import numpy

from openfisca_core.entities import build_entity
from openfisca_core.simulations.simulation_builder import SimulationBuilder
from openfisca_core.taxbenefitsystems import TaxBenefitSystem

from common import Err, cbool, clist, copt, cstr, cz, guarded

PROP = "C10"
SHARD = 350
ANCHORS = ["openfisca_core/populations/group_population.py",
           "openfisca_core/populations/population.py",
           "openfisca_core/populations/_core_population.py",
           "openfisca_core/projectors/helpers.py",
           "openfisca_core/projectors/projector.py",
           "openfisca_core/projectors/entity_to_person_projector.py",
           "openfisca_core/projectors/unique_role_to_entity_projector.py",
           "openfisca_core/projectors/first_person_to_entity_projector.py",
           "openfisca_core/entities/group_entity.py",
           "openfisca_core/entities/helpers.py"]
RULE = ("one primitive (sum, any, all, min, max, nb_persons, value_from_person, value_nth_person, "
        "value_from_first_person, project, members_position, ordered_members_map, get_rank, projector "
        "chains) x one membership: 0-12 persons, 1-6 groups, storage order contiguous / interleaved / "
        "reversed / randomly permuted, groups without members at the start, in the middle and at the end, "
        "roles (sub-roles of a parent role, an unbounded role, a max=1 role) absent from some groups, a "
        "second group entity with its own membership; a system whose two group entities SHARE their role keys "
        "(different holders in each) and sequences of role-restricted operations asked of BOTH entities of ONE "
        "simulation, in both orders; an entity with several roles that each have sub-roles; values int / dyadic "
        "float / bool with ties, float64 / int64 values that float32 cannot represent (0.1, 1/3, 2**24+1, yyyymmdd "
        "dates one day apart) for min / max / selections / projector chains / ranks, float arrays with +-inf on "
        "members outside the requested role; a SCALE stream (a group of > 2**15 members, > 2**16 groups); a "
        "malformed stream (wrong array size, group index >= count, non-unique holder of a unique role, "
        "negative n, unknown attribute in a projector path). A case is non-trivial when it has at least "
        "one person and returns a value; cases are distinct as (membership, primitive, arguments).")
TRUSTED = ["numpy semantics (bincount, boolean-mask indexing and assignment, where, argsort as 'some sorting "
           "permutation', max of an empty array raising ValueError) are modelled by coq/model/Np.v and covered by "
           "the correspondence only",
           "ties of numpy.argsort are not compared literally: ordered_members_map and get_rank observations are "
           "canonicalised within runs of equal keys before the comparison with the model's stable sort; the "
           "oracle checks the raw answers"]
ASSUMPTIONS = ["call-history cases: on ONE simulation every aggregation primitive is called, each returned array is then "
               "edited in place by the caller (x[x == 0] = 1, x -= 1, fill), the same calls are repeated on the same "
               "objects and a third time on simulation.clone(); the three passes are sent to the model and to the oracle "
               "as the same operations three times (members_position / ordered_members_map are attributes exposing the "
               "population's own arrays and are not edited)",
               "SCALE stream (2 cases per quick run: one group of 33000-40000 members next to small ones; 66000-70000 "
               "single-person groups built by the real SimulationBuilder): ORACLE ONLY -- the model receives the empty "
               "case `Multi []`; the oracle recomputes positions (summary + samples), sum / nb_persons (with and without "
               "role), two of min / max / all, value_nth_person at 0, 32767, 32768, last, last+1, resp. sum / nb_persons / "
               "project / person->group chain, with per-group boolean masks",
               "kinds f64 / i64: the case carries codes of an increasing table of float64 / int64 values containing 0 at "
               "code 0; the implementation receives the table's values in that dtype, its answers are mapped back to "
               "codes (an answer that is not exactly a table value is an error observation), model and oracle work on "
               "the codes -- an order embedding fixing 0, which min / max / selections / ranks commute with (no sums); "
               "the role tables of the generator, the oracle and the model come from the entity DECLARATIONS, not "
               "from the Role objects built by the implementation",
               "arrays with +-inf: claimed (oracle) for role-restricted sum / any / min / max / all when every non-finite "
               "value is held by a person outside the requested role; the model's values are finite integers, so the "
               "model is evaluated on the same array with those entries replaced by 0 -- by sum_spec / min_spec / ... "
               "its answer does not depend on them; a NaN in a result is an error observation",
               "float arrays are dyadic (multiples of 1/4, |x| < 2^12) so that every sum / min / max is exact; "
               "the model computes on the values scaled by 4",
               "members_role entries are roles of entity.flattened_roles (what SimulationBuilder assigns); a person "
               "holding a parent Role object that has sub-roles is not generated",
               "roles passed to a group population belong to that group's entity",
               "value_from_person is claimed when the role is declared unique (max = 1) and held by at most one member of every group",
               "any() is claimed for non-negative arrays (the code computes sum > 0), all() for every array (non-zero = true)",
               "min / max / all / value_nth_person / value_from_first_person / get_rank / members_position on a "
               "population WITHOUT ANY PERSON raise ValueError in the code (numpy.max of an empty array) although the "
               "property text claims neutral elements: these inputs are left out of the generator (set "
               "C10_ZERO_PERSONS=1 to include them and see the failing input); sum / any / nb_persons / "
               "value_from_person / project on zero persons are generated and checked",
               "rank ties are unspecified: the oracle checks permutation + order consistency only"]


# ---- the rule systems (entities with roles) ----------------------------------------------

# Declarations (plain data).  The role tables used by the generator, the oracle and the Coq
# model are derived from THESE, not from the Role objects the implementation builds out of
# them; the Role objects are only looked up (by key) to drive the implementation.
DECLS = {
    "A": [
        dict(key="household", plural="households", roles=[
            {"key": "parent", "plural": "parents", "subroles": ["first_parent", "second_parent"]},
            {"key": "child", "plural": "children"},
            {"key": "head", "max": 1}]),
        dict(key="family", plural="families", containing_entities=["household"], roles=[
            {"key": "member"},
            {"key": "chief", "max": 1}]),
    ],
    "B": [
        dict(key="unit", plural="units", roles=[
            {"key": "adult", "plural": "adults", "max": 2},
            {"key": "dependent", "plural": "dependents"}]),
        dict(key="club", plural="clubs", roles=[
            {"key": "officer", "subroles": ["president", "treasurer", "secretary"]},
            {"key": "fellow"}]),
    ],
    # Two group entities whose roles SHARE their keys (as famille / menage 'enfants' in
    # openfisca-france): role keys are unique within one entity only.  (No role is called
    # "parent" here: Projector instances have a `parent` attribute that Python finds before
    # Projector.__getattr__, so `x.first_person.family.parent` is the parent PROJECTOR.)
    "C": [
        dict(key="family", plural="families", roles=[
            {"key": "elder", "plural": "elders", "subroles": ["first_elder", "second_elder"]},
            {"key": "child", "plural": "children"},
            {"key": "head", "max": 1}]),
        dict(key="household", plural="households", roles=[
            {"key": "child", "plural": "children"},
            {"key": "head", "max": 1},
            {"key": "elder", "plural": "elders", "max": 2},
            {"key": "lodger"}]),
    ],
    # Several roles WITH sub-roles in one entity (each parent role is held through its own
    # sub-roles only).
    "D": [
        dict(key="clan", plural="clans", roles=[
            {"key": "elder", "plural": "elders", "subroles": ["first_elder", "second_elder"]},
            {"key": "guardian", "plural": "guardians", "subroles": ["first_guardian", "second_guardian"]},
            {"key": "child", "plural": "children"},
            {"key": "mentor", "plural": "mentors", "subroles": ["tutor", "sponsor", "coach"]}]),
        dict(key="team", plural="teams", roles=[
            {"key": "player"},
            {"key": "lead", "subroles": ["captain", "vice"]},
            {"key": "staff", "subroles": ["medic", "driver"]}]),
    ],
}


class RoleSpec:
    """A declared role: key, max, rows of its sub-roles."""

    def __init__(self, key, mx, subs):
        self.key, self.max, self.subs = key, mx, subs


class System:
    def __init__(self, name, decls):
        self.name = name
        self.person = build_entity(key="person", plural="persons", label="", is_person=True)
        self.groups = [build_entity(label="", **d) for d in decls]
        self.tbs = TaxBenefitSystem([self.person] + self.groups)
        self.rows = []        # per group entity: list of (RoleSpec, top), sub-roles after their parent
        self.flat = []        # per group entity: rows a person may hold (a role, or its sub-roles)
        self.containing = [list(d.get("containing_entities", ())) for d in decls]
        for d in decls:
            rows, flat = [], []
            for desc in d["roles"]:
                subkeys = list(desc.get("subroles") or ())
                me = len(rows)
                subs = [me + 1 + j for j in range(len(subkeys))]
                rows.append((RoleSpec(desc["key"], len(subkeys) if subkeys else desc.get("max"), subs), True))
                for sk in subkeys:
                    rows.append((RoleSpec(sk, 1, []), False))
                flat += subs or [me]
            self.rows.append(rows)
            self.flat.append(flat)

    def coq_defs(self):
        out = []
        for k, g in enumerate(self.groups):
            rws = [f"role_row {cstr(spec.key)} {copt(spec.max, cz)} {clist([cz(x) for x in spec.subs])} {cbool(top)}"
                   for spec, top in self.rows[k]]
            cont = clist([cstr(str(c)) for c in self.containing[k]])
            out.append(f"Definition ent{self.name}{k} : gentity := Build_gentity {cstr(str(g.key))} {clist(rws)} {cont}.")
        return out

    def role(self, k, r):
        """The implementation's Role object for row r (entity.<KEY> attribute)."""
        return getattr(self.groups[k], self.rows[k][r][0].key.upper())

    def role_max(self, k, r):
        return self.rows[k][r][0].max

    def holds(self, k, r, person_role):
        """Does a person whose role is row `person_role` have role row `r` (itself, or as parent)."""
        return person_role == r or person_role in self.rows[k][r][0].subs


SYSTEMS = {name: System(name, decls) for name, decls in DECLS.items()}

COQ_HEADER = ("From Verif Require Import Np Group Corr_C10.\nImport ListNotations.\n"
              "Open Scope string_scope.\nOpen Scope Z_scope.\n") + "\n".join(
    d for s in SYSTEMS.values() for d in s.coq_defs())
COQ_RUN = "Corr_C10.run_m"

GROUP_OPS = ("sum", "any", "all", "min", "max", "nb", "vfp", "nth", "first", "project",
             "positions", "omm", "rank")
VALUE_OPS = ("sum", "min", "max", "vfp", "nth", "first", "project", "chain")   # results scaled with the kind
INCLUDE_ZERO_PERSONS = bool(int(__import__("os").environ.get("C10_ZERO_PERSONS", "0")))
NEEDS_A_PERSON = ("all", "min", "max", "nth", "first", "positions", "rank")


# ---- building the real objects -------------------------------------------------------------

def build_simulation(w):
    s = SYSTEMS[w["sys"]]
    n = len(w["groups"][0]["ids"])
    sb = SimulationBuilder()
    sb.create_entities(s.tbs)
    sb.declare_person_entity("person", [f"p{i}" for i in range(n)])
    idt = numpy.int32 if w.get("idt") == 32 else numpy.int64
    for k, (g, gw) in enumerate(zip(s.groups, w["groups"])):
        pop = sb.declare_entity(g.key, [f"{g.key}{j}" for j in range(gw["count"])])
        pop.members_entity_id = numpy.array(gw["ids"], dtype=idt)
        pop.members_role = numpy.array([s.role(k, r) for r in gw["roles"]], dtype=object)
    return sb.build(s.tbs), s


class Table:
    """A value kind whose values are NOT representable in float32 (nor, for some, as small
    integers).  A case carries CODES: code c stands for values[c + zero], the table is
    increasing and contains 0 at code 0, so code -> value is an order embedding that maps
    the defaults (0) to themselves -- all that min / max / selections / ranks depend on.
    The model and the oracle compute on the codes; a result of the implementation is mapped
    back to its code and must therefore be EXACTLY one of the table's values."""

    def __init__(self, values, dtype):
        self.values = sorted(set(values) | {0})
        self.zero = self.values.index(0)
        self.dtype = dtype
        self.codes = list(range(-self.zero, len(self.values) - self.zero))
        self.index = {fractions.Fraction(v): i - self.zero for i, v in enumerate(self.values)}

    def value(self, code):
        return self.values[code + self.zero]

    def code(self, x):
        if isinstance(x, float) and math.isinf(x):
            return "inf" if x > 0 else "-inf"
        if isinstance(x, float) and math.isnan(x):
            raise ArithmeticError("nan in result")
        try:
            return self.index[fractions.Fraction(x)]
        except KeyError:
            raise ArithmeticError(f"{x!r} is not exactly the value of any person (a value was altered on the way)") from None


TABLES = {
    # float64 amounts: not float32-representable, several within one float32 spacing of each other
    "f64": Table([-123456789.25, -0.1, 0.1, 0.2, 0.1 + 0.2, 1 / 3, 0.5000000001, 16777216.0, 16777217.0,
                  16777218.0, 20100315.0, 20100316.0, 123456789.25], numpy.float64),
    # int64 identifiers / yyyymmdd dates / cents above 2**24
    "i64": Table([-20100316, -16777217, 16777216, 16777217, 16777218, 16777219, 20100315, 20100316,
                  20100317, 33554433, 33554435, 2 ** 40 + 1], numpy.int64),
}
SEL_KINDS = ["int", "float", "bool", "f64", "i64", "f64", "i64"]   # for operations that select / order values


def scale_of(kind):
    if kind in TABLES:
        return TABLES[kind]
    return 4 if kind == "float" else 1


def _fl(v):
    """Scaled integer -> float; "inf" / "-inf" stand for themselves."""
    return float(v) if isinstance(v, str) else v / 4


def finite_vals(vals):
    """The array the MODEL evaluates: its values are finite (Z); a non-finite entry is only
    generated on a person outside the requested role, where the model (sum_spec, min_spec,
    ...: the answer depends on the members holding the role only) never reads it."""
    return [0 if isinstance(v, str) else v for v in vals]


def mk_array(vals, kind, wide=True):
    if kind in TABLES:
        tb = TABLES[kind]
        return numpy.array([tb.value(v) for v in vals], dtype=tb.dtype)
    if kind == "float":
        return numpy.array([_fl(v) for v in vals], dtype=numpy.float64 if wide else numpy.float32)
    if kind == "bool":
        return numpy.array([bool(v) for v in vals], dtype=bool)
    return numpy.array(vals, dtype=numpy.int64 if wide else numpy.int32)


def mk_default(d, kind):
    if kind in TABLES:
        return TABLES[kind].value(d)
    if kind == "float":
        return d / 4
    if kind == "bool":
        return bool(d)
    return d


def enc_value(x, scale):
    if isinstance(scale, Table):
        return scale.code(x)
    if isinstance(x, (bool, numpy.bool_)):
        return int(x)
    if isinstance(x, float):
        if math.isinf(x):
            return "inf" if x > 0 else "-inf"
        if math.isnan(x):
            raise ArithmeticError("nan in result")
    fr = fractions.Fraction(x) * scale
    if fr.denominator != 1:
        raise ArithmeticError(f"inexact value {x!r} at scale {scale}")
    return int(fr)


def enc_values(arr, scale):
    return [enc_value(x, scale) for x in numpy.asarray(arr).tolist()]


def enc_ints(arr):
    return [enc_value(x, 1) for x in numpy.asarray(arr).tolist()]


def enc_bools(arr):
    a = numpy.asarray(arr)
    if a.dtype != bool:
        raise TypeError(f"expected a bool array, got {a.dtype}")
    return [bool(x) for x in a.tolist()]


# ---- implementation driver -------------------------------------------------------------------

def run_impl(c):
    if c["op"] == "scale":
        return run_scale(c)
    sim, s = build_simulation(c["w"])
    if c["op"] == "multi":
        # every step on the SAME simulation, in order; a step that raises is recorded and
        # the following ones still run
        if not c.get("history"):
            return [guarded(run_step, sim, s, st) for st in c["steps"]]
        # call history: the array RETURNED by every primitive is scribbled over in place by the
        # caller (as formulas do: `size = household.nb_persons(); size[size == 0] = 1`), then
        # the same primitives are asked again -- on the same objects, then on a clone
        out = []
        for p in range(c["passes"]):
            if p == 2:
                sim = sim.clone()
            for j, st in enumerate(c["steps"]):
                got = []
                out.append(guarded(run_step, sim, s, st, got.append))
                for raw in got:
                    scribble(raw, c["scribble"] + j + p)
        return out
    return run_step(sim, s, c)


def scribble(raw, mode):
    """What a caller may do to an array it was given."""
    if not isinstance(raw, numpy.ndarray) or raw.size == 0 or raw.dtype == object:
        return
    if raw.dtype == bool:
        raw[...] = ~raw if mode % 2 else True
    elif mode % 3 == 0:
        raw[raw == 0] = 1
    elif mode % 3 == 1:
        raw -= 1
    else:
        raw[...] = 7


def _same(r):
    return r



def run_step(sim, s, c, keep=None):
    keep_ = keep or _same

    def kept(r):
        keep_(r)
        return r
    op = c["op"]
    kind = c.get("kind", "int")
    sc = scale_of(kind)
    wide = c.get("wide", True)
    if op == "chain":
        obj = sim.persons if c["start"] is None else sim.populations[s.groups[c["start"]].key]
        for name in c["path"]:
            obj = getattr(obj, name)
        arr = mk_array(c["vals"], kind, wide)
        if c["term"] == 0:
            return enc_values(kept(obj.transform_and_bubble_up(arr)), sc)
        # the role (if any) belongs to the entity the path ends on
        ref = obj.reference_entity
        k_end = next((k for k, g in enumerate(s.groups) if g.key == ref.entity.key), None)
        role = None if c["role"] is None or k_end is None else s.role(k_end, c["role"])
        if c["term"] == 1:
            return enc_values(kept(obj.sum(arr, role=role)), sc)
        return enc_values(kept(obj.nb_persons(role=role)), 1)
    k = c["k"]
    pop = sim.populations[s.groups[k].key]
    role = None if c.get("role") is None else s.role(k, c["role"])
    if op in ("sum", "any", "all", "min", "max"):
        arr = mk_array(c["vals"], kind, wide)
        r = kept(getattr(pop, op)(arr, role=role))
        return enc_bools(r) if op in ("any", "all") else enc_values(r, sc)
    if op == "nb":
        return enc_ints(kept(pop.nb_persons(role=role)))
    if op == "vfp":
        return enc_values(kept(pop.value_from_person(mk_array(c["vals"], kind, wide), role,
                                                     default=mk_default(c["default"], kind))), sc)
    if op == "nth":
        return enc_values(kept(pop.value_nth_person(c["n"], mk_array(c["vals"], kind, wide),
                                                    default=mk_default(c["default"], kind))), sc)
    if op == "first":
        return enc_values(kept(pop.value_from_first_person(mk_array(c["vals"], kind, wide))), sc)
    if op == "project":
        return enc_values(kept(pop.project(mk_array(c["vals"], kind, wide), role=role)), sc)
    if op == "positions":
        return enc_ints(pop.members_position)
    if op == "omm":
        return enc_ints(pop.ordered_members_map)
    if op == "rank":
        crit = mk_array(c["vals"], kind, wide)
        if c["cond"] is None:
            return enc_ints(kept(sim.persons.get_rank(pop, crit)))
        return enc_ints(kept(sim.persons.get_rank(pop, crit, condition=numpy.array(c["cond"], dtype=bool))))
    raise ValueError(op)


# ---- Coq rendering -----------------------------------------------------------------------------

def zl(xs):
    return clist([cz(x) for x in xs])


def cworld(w):
    pops = [f"pop ent{w['sys']}{k} {cz(g['count'])} {zl(g['ids'])} {zl(g['roles'])}"
            for k, g in enumerate(w["groups"])]
    return f"(Build_simulation \"person\" {clist(pops)})"


def steps_of(c):
    """The single-operation cases of a multi case (they share its world)."""
    steps = c["steps"] * c["passes"] if c.get("history") else c["steps"]
    return [dict(st, w=c["w"], shape=c.get("shape", "?")) for st in steps]


def coq_case(c):
    if c["op"] == "scale":
        return "(Multi [])"       # oracle-only stream: nothing for the model to evaluate
    if c["op"] == "multi":
        return "(Multi " + clist([coq_one(st) for st in steps_of(c)]) + ")"
    return f"(One {coq_one(c)})"


def coq_one(c):
    op = c["op"]
    w = cworld(c["w"])
    if c.get("vals") is not None:
        c = dict(c, vals=finite_vals(c["vals"]))
    if op == "chain":
        return (f"(KChain {w} {copt(c['start'], cz)} {clist([cstr(p) for p in c['path']])} {cz(c['term'])} "
                f"{zl(c['vals'])} {copt(c['role'], cz)})")
    k = cz(c["k"])
    role = copt(c.get("role"), cz)
    if op in ("sum", "any", "all", "min", "max"):
        return f"(K{op.capitalize()} {w} {k} {zl(c['vals'])} {role})"
    if op == "nb":
        return f"(KNb {w} {k} {role})"
    if op == "vfp":
        return f"(KVfp {w} {k} {zl(c['vals'])} {cz(c['role'])} {cz(c['default'])})"
    if op == "nth":
        return f"(KNth {w} {k} {cz(c['n'])} {zl(c['vals'])} {cz(c['default'])})"
    if op == "first":
        return f"(KFirst {w} {k} {zl(c['vals'])})"
    if op == "project":
        return f"(KProject {w} {k} {zl(c['vals'])} {role})"
    if op == "positions":
        return f"(KPositions {w} {k})"
    if op == "omm":
        return f"(KOmm {w} {k})"
    if op == "rank":
        cond = copt(c["cond"], lambda bs: clist([cbool(b) for b in bs]))
        return f"(KRank {w} {k} {zl(c['vals'])} {cond})"
    raise ValueError(op)


def obs_for_coq(c, o):
    """What the model must reproduce exactly.  numpy.argsort breaks ties arbitrarily, the
    model's argsort is the stable one: inside every run of equal keys the implementation's
    answer is put in increasing order (a wrong answer stays wrong, see TRUSTED)."""
    if c["op"] == "scale":
        return []
    if isinstance(o, Err):
        return o
    op = c["op"]
    if op == "multi":
        return [obs_for_coq(st, oi) for st, oi in zip(steps_of(c), o)]
    if op == "omm":
        ids = c["w"]["groups"][c["k"]]["ids"]
        if any(not (0 <= i < len(ids)) for i in o):
            return o
        out, j = [], 0
        while j < len(o):
            e = j
            while e < len(o) and ids[o[e]] == ids[o[j]]:
                e += 1
            out += sorted(o[j:e])
            j = e
        return out
    if op == "rank":
        ids = c["w"]["groups"][c["k"]]["ids"]
        n = len(ids)
        if len(o) != n or len(c["vals"]) != n:
            return o
        cond = c["cond"] or [True] * n
        out = list(o)
        classes = {}
        for i in range(n):
            if cond[i]:
                classes.setdefault((ids[i], c["vals"][i]), []).append(i)
        for members in classes.values():
            for i, r in zip(members, sorted(o[i] for i in members)):
                out[i] = r
        return out
    return o


# ---- oracle: the statement of C10 with naive loops ------------------------------------------------

def well_formed(c):
    """Inputs inside the property's domain (everything else is compared with the model only)."""
    w = c["w"]
    n = len(w["groups"][0]["ids"])
    for g in w["groups"]:
        if len(g["ids"]) != n or len(g["roles"]) != n:
            return False
        if any(not (0 <= e < g["count"]) for e in g["ids"]):
            return False
    return True


def members_of(g, grp, s=None, k=None, role=None):
    out = []
    for i, e in enumerate(g["ids"]):
        if e == grp and (role is None or s.holds(k, role, g["roles"][i])):
            out.append(i)
    return out


def walk_path(s, start, path):
    """Kinds of the steps of population.a.b.c: list of (kind, group, role) and the reference
    entity the path ends on (None = persons); None when the path is not a projector path."""
    steps = []
    cur = start     # None = persons, k = group k
    for name in path:
        if cur is None:
            k = next((j for j, g in enumerate(s.groups) if g.key == name), None)
            if k is None:
                return None
            steps.append(("to_person", k, None))
            cur = k
        elif name == "first_person":
            steps.append(("first", cur, None))
            cur = None
        else:
            r = next((j for j, (role, _top) in enumerate(s.rows[cur]) if role.key == name and role.max == 1), None)
            if r is not None:
                steps.append(("unique", cur, r))
                cur = None
            elif name in s.containing[cur]:
                k2 = next((j for j, gg in enumerate(s.groups) if gg.key == name), None)
                if k2 is None:
                    return None
                steps.append(("containing", cur, k2))
                cur = k2
            else:
                return None
    return (steps, cur) if steps else None


def chain_semantics(s, w, steps, x):
    """Meaning of a projector path applied to an array of the entity it ends on: the
    composition (innermost = last name first) of 'value of my group', 'value of the first
    member', 'value of the member with the unique role'."""
    val = x
    for kind, k, extra in reversed(steps):
        g = w["groups"][k]
        if kind == "to_person":
            val = [val[e] for e in g["ids"]]
        elif kind == "first":
            out = []
            for grp in range(g["count"]):
                m = members_of(g, grp)
                out.append(val[m[0]] if m else 0)
            val = out
        elif kind == "unique":
            out = []
            for grp in range(g["count"]):
                m = members_of(g, grp, s, k, extra)
                if len(m) > 1:
                    raise LookupError("role not unique")
                out.append(val[m[0]] if m else 0)
            val = out
        else:   # containing: group k -> containing group `extra`, through k's first member
            g2 = w["groups"][extra]
            per_person = [val[e] for e in g2["ids"]]
            out = []
            for grp in range(g["count"]):
                m = members_of(g, grp)
                out.append(per_person[m[0]] if m else 0)
            val = out
    return val


def oracle(c, o):
    if c["op"] == "scale":
        return scale_oracle(c, o)
    if not well_formed(c):
        return None
    op = c["op"]
    if op == "multi":
        if isinstance(o, Err):
            return f"multi: raised {o.kind} ({o.msg})"
        for j, (st, oi) in enumerate(zip(steps_of(c), o)):
            msg = oracle(st, oi)
            if msg:
                sts = steps_of(c)
                order = " then ".join(f"{x['op']}@{x.get('k')}/{x.get('role')}" for x in sts[: j + 1])
                hist = ""
                if c.get("history"):
                    m = len(c["steps"])
                    hist = (f"; call history: pass {j // m} (0 = fresh, 1 = after every returned array was edited in "
                            f"place by the caller, 2 = on a clone), step {j % m}")
                return f"{msg}  [step {j} of one simulation: {order}{hist}]"
        return None
    w = c["w"]
    s = SYSTEMS[w["sys"]]
    n = len(w["groups"][0]["ids"])

    if op == "chain":
        x = c["vals"]
        wp = walk_path(s, c["start"], c["path"])
        if wp is None:
            return None      # not a projector path: outside the statement (compared with the model)
        steps, cur = wp
        if c["term"] == 0:
            size = n if cur is None else w["groups"][cur]["count"]
            if len(x) != size:
                return None
            inner = x
        else:
            if cur is None:
                return None
            g = w["groups"][cur]
            if c["term"] == 1:
                if len(x) != n:
                    return None
                inner = [sum(x[i] for i in members_of(g, grp, s, cur, c["role"])) for grp in range(g["count"])]
            else:
                inner = [len(members_of(g, grp, s, cur, c["role"])) for grp in range(g["count"])]
        try:
            exp = chain_semantics(s, w, steps, inner)
        except LookupError:
            return None      # a unique role held twice in a group: outside the statement
        if isinstance(o, Err):
            return f"chain: raised {o.kind} ({o.msg}) on a valid projector path"
        if o != exp:
            return f"chain: {'.'.join(c['path'])} gives {o}, the composition of its steps gives {exp}"
        return None

    k = c["k"]
    g = w["groups"][k]
    count = g["count"]
    vals = c.get("vals")
    role = c.get("role")
    groups = range(count)

    # sizes of the arrays: outside the domain when wrong
    if op in ("sum", "any", "all", "min", "max", "vfp", "nth", "first", "rank") and len(vals) != n:
        return None
    if op == "project" and len(vals) != count:
        return None
    if op == "rank" and c["cond"] is not None and len(c["cond"]) != n:
        return None
    if op == "nth" and c["n"] < 0:
        return None
    if op == "vfp":
        if s.role_max(k, role) != 1:
            return None
        if any(len(members_of(g, grp, s, k, role)) > 1 for grp in groups):
            return None

    if isinstance(o, Err):
        return f"{op}: raised {o.kind} ({o.msg}) on a well-formed input"

    if vals is not None and any(isinstance(v, str) for v in vals):
        # +-inf in the array: claimed when every non-finite value is held by a person OUTSIDE
        # the requested role (no member of any `mem(grp)` below), whose value must not matter
        if op not in ("sum", "any", "all", "min", "max") or role is None:
            return None
        if any(isinstance(vals[i], str) and s.holds(k, role, g["roles"][i]) for i in range(n)):
            return None

    def mem(grp):
        return members_of(g, grp, s, k, role)

    if op in ("sum", "any", "all", "min", "max", "nb", "vfp", "nth", "first") and len(o) != count:
        return f"length: {op} returned {len(o)} elements for {count} groups"

    if op == "sum":
        exp = [sum(vals[i] for i in mem(grp)) for grp in groups]
    elif op == "nb":
        exp = [len(mem(grp)) for grp in groups]
    elif op == "any":
        if any(v < 0 for v in vals if not isinstance(v, str)):
            return None
        exp = [any(vals[i] != 0 for i in mem(grp)) for grp in groups]
    elif op == "all":
        exp = [all(vals[i] != 0 for i in mem(grp)) for grp in groups]
    elif op == "min":
        exp = [min((vals[i] for i in mem(grp)), default="inf") for grp in groups]
    elif op == "max":
        exp = [max((vals[i] for i in mem(grp)), default="-inf") for grp in groups]
    elif op == "vfp":
        exp = [vals[mem(grp)[0]] if mem(grp) else c["default"] for grp in groups]
    elif op in ("nth", "first"):
        nn = c["n"] if op == "nth" else 0
        dflt = c["default"] if op == "nth" else 0
        exp = []
        for grp in groups:
            m = members_of(g, grp)
            exp.append(vals[m[nn]] if nn < len(m) else dflt)
    elif op == "project":
        exp = [vals[g["ids"][i]] if (role is None or s.holds(k, role, g["roles"][i])) else 0 for i in range(n)]
    elif op == "positions":
        exp = [sum(1 for j in range(i) if g["ids"][j] == g["ids"][i]) for i in range(n)]
    elif op == "omm":
        if sorted(o) != list(range(n)):
            return f"omm: {o} is not a permutation of the {n} persons"
        keys = [g["ids"][i] for i in o]
        if any(keys[j] > keys[j + 1] for j in range(n - 1)):
            return f"omm: {o} does not sort the group indices {g['ids']}"
        return None
    elif op == "rank":
        cond = c["cond"] or [True] * n
        if len(o) != n:
            return f"rank: {len(o)} ranks for {n} persons"
        for i in range(n):
            if not cond[i] and o[i] != -1:
                return f"rank: person {i} does not satisfy the condition but has rank {o[i]}"
        for grp in groups:
            m = [i for i in members_of(g, grp) if cond[i]]
            if sorted(o[i] for i in m) != list(range(len(m))):
                return f"rank: ranks {[o[i] for i in m]} of members {m} of group {grp} are not a permutation of 0..{len(m) - 1}"
            for i in m:
                for j in m:
                    if vals[i] < vals[j] and not o[i] < o[j]:
                        return f"rank: criterion {vals[i]} < {vals[j]} but ranks {o[i]} >= {o[j]} (persons {i}, {j}, group {grp})"
        return None
    else:
        return None
    if o != exp:
        return f"{op}: got {o}, per-group definition gives {exp}"
    return None


def nontrivial(c, o):
    if c["op"] == "scale":
        return not isinstance(o, Err)
    if c["op"] == "multi" and not isinstance(o, Err) and all(isinstance(x, Err) for x in o):
        return False
    return not isinstance(o, Err) and len(c["w"]["groups"][0]["ids"]) > 0


def classify(c, o):
    if c["op"] == "scale":
        return f"scale:{c['variant']}:{c['sys']}"
    if c["op"] == "multi":
        return f"multi:{c['w']['sys']}:{len(c['steps'])}:{c.get('shape', '?')}" + (":err" if isinstance(o, Err) else "")
    tag = c["op"]
    if "kind" in c and c["op"] not in ("nb", "positions", "omm"):
        tag += ":" + c["kind"]
    if c.get("role") is not None:
        tag += ":role"
    tag += ":" + c.get("shape", "?")
    if isinstance(o, Err):
        tag += ":" + o.kind
    return tag


# ---- generation --------------------------------------------------------------------------------------

SHAPES = ("contiguous", "interleaved", "reversed", "permuted", "single", "sparse")


def gen_ids(rng, n, count, shape):
    """Group index per person.  Some groups are deliberately left without members."""
    # which groups may receive members
    live = list(range(count))
    r = rng.random()
    if count > 1 and r < 0.6:
        drop = set()
        style = rng.choice(["leading", "middle", "trailing", "random", "trailing2"])
        if style == "leading":
            drop = {0}
        elif style == "trailing":
            drop = {count - 1}
        elif style == "trailing2":
            drop = {count - 1, max(count - 2, 0)}
        elif style == "middle" and count > 2:
            drop = {rng.randrange(1, count - 1)}
        else:
            drop = {j for j in range(count) if rng.random() < 0.4}
        live = [j for j in live if j not in drop] or [rng.randrange(count)]
    if shape == "single":
        live = [rng.choice(live)]
    if shape == "contiguous":
        ids = sorted(rng.choice(live) for _ in range(n))
    elif shape == "reversed":
        ids = sorted((rng.choice(live) for _ in range(n)), reverse=True)
    elif shape == "interleaved":
        ids = [live[i % len(live)] for i in range(n)]
    elif shape == "sparse":
        ids = [rng.choice(live[:2]) for _ in range(n)]
    else:
        ids = [rng.choice(live) for _ in range(n)]
    return ids


def gen_roles(rng, s, k, ids, count, strict=True):
    """Roles per person from entity.flattened_roles.  When `strict`, a role with a max is
    given to at most max members of a group; every group bans some roles at random, so that
    roles are absent from some groups."""
    flat = s.flat[k]
    banned = {grp: {r for r in flat if rng.random() < 0.3} for grp in range(count)}
    used = {}
    roles = []
    for e in ids:
        def ok(r):
            mx = s.role_max(k, r)
            return not strict or mx is None or used.get((e, r), 0) < mx
        cand = [r for r in flat if r not in banned.get(e, ()) and ok(r)] or [r for r in flat if ok(r)] or flat
        r = rng.choice(cand)
        used[(e, r)] = used.get((e, r), 0) + 1
        roles.append(r)
    return roles


def gen_world(rng, sys_name=None, n=None, strict=True):
    s = SYSTEMS[sys_name or rng.choice(["A", "A", "B", "C", "C", "D", "D"])]
    if n is None:
        n = rng.choice([0, 1, 2, 3, 4, 5, 5, 6, 6, 7, 8, 9, 10, 11, 12, 12])
    groups = []
    shape0 = None
    for k in range(len(s.groups)):
        count = rng.randrange(1, 7)
        shape = rng.choice(SHAPES)
        if k == 0:
            shape0 = shape
        ids = gen_ids(rng, n, count, shape)
        roles = gen_roles(rng, s, k, ids, count, strict)
        groups.append({"count": count, "ids": ids, "roles": roles})
    return {"sys": s.name, "idt": rng.choice([64, 64, 32]), "groups": groups}, shape0


def gen_default(rng, kind):
    if rng.random() < 0.5:
        return 0
    if kind in TABLES:
        return rng.choice(TABLES[kind].codes)
    return rng.randrange(0, 2) if kind == "bool" else rng.randrange(-9, 10)


def gen_vals(rng, n, kind):
    if kind in TABLES:
        codes = TABLES[kind].codes
        if rng.random() < 0.6:      # neighbours in the table: closer than a float32 can tell apart
            lo = rng.randrange(len(codes) - 2)
            codes = codes[lo:lo + rng.choice([2, 3, 4])]
        return [rng.choice(codes) for _ in range(n)]
    if kind == "bool":
        p = rng.choice([0.2, 0.5, 0.8, 1.0])
        return [1 if rng.random() < p else 0 for _ in range(n)]
    style = rng.random()
    if style < 0.35:      # many ties
        pool = [rng.randrange(-3, 4) for _ in range(3)]
        vals = [rng.choice(pool) for _ in range(n)]
    elif style < 0.5:     # non-negative
        vals = [rng.randrange(0, 50) for _ in range(n)]
    else:
        vals = [rng.randrange(-2000, 2001) for _ in range(n)]
    if kind == "float":   # scaled by 4: any integer is a multiple of 1/4 once divided
        vals = [v * rng.choice([1, 1, 2, 4]) for v in vals]
    return vals


def pick_role(rng, s, k, unique_only=False, allow_none=True):
    rows = list(range(len(s.rows[k])))
    if unique_only:
        rows = [r for r in rows if s.role_max(k, r) == 1] or rows
    if allow_none and rng.random() < 0.35:
        return None
    return rng.choice(rows)


ROLE_OPS = ("sum", "min", "max", "all", "any", "project", "nb", "vfp")
INF_OPS = ("sum", "any", "min", "max", "all")


def shared_role_rows(s):
    """Role keys defined by BOTH group entities: (row in entity 0, row in entity 1)."""
    keys0 = {str(role.key): r for r, (role, _top) in enumerate(s.rows[0])}
    return [(keys0[str(role.key)], r) for r, (role, _top) in enumerate(s.rows[1]) if str(role.key) in keys0]


def gen_step(rng, s, w, k, op, r):
    """One role-restricted operation on group entity k (role row r)."""
    n = len(w["groups"][0]["ids"])
    count = w["groups"][k]["count"]
    if op == "vfp" and s.role_max(k, r) != 1:
        op = "sum"
    if n == 0 and op in NEEDS_A_PERSON and not INCLUDE_ZERO_PERSONS:
        op = "sum"
    if op == "nb":
        return {"op": "nb", "k": k, "role": r}
    kind = "bool" if op in ("any", "all") and rng.random() < 0.7 else rng.choice(["int", "float", "bool"])
    if op == "any" and kind != "bool":
        kind, vals = "int", [rng.randrange(0, 5) for _ in range(n)]
    else:
        vals = gen_vals(rng, count if op == "project" else n, kind)
    st = {"op": op, "k": k, "kind": kind, "wide": True, "vals": vals, "role": r}
    if op == "vfp":
        st["default"] = 0 if kind == "bool" else rng.randrange(-9, 10)
    return st


def multi_cases(rng, w, shape, how_many=2):
    """Role-restricted operations requested for BOTH group entities of ONE simulation, in
    both orders, preferably for a role key the two entities share (different holders in
    each, the role maps being drawn independently)."""
    s = SYSTEMS[w["sys"]]
    pairs = shared_role_rows(s)
    out = []
    for _ in range(how_many):
        if pairs:
            rows = dict(zip((0, 1), rng.choice(pairs)))
        else:
            rows = {k: pick_role(rng, s, k, allow_none=False) for k in (0, 1)}
        order = rng.choice([(0, 1), (1, 0)])
        steps = []
        for op in rng.sample(ROLE_OPS, rng.randrange(2, 5)):
            for k in (order if rng.random() < 0.8 else order[::-1]):
                steps.append(gen_step(rng, s, w, k, op, rows[k]))
        out.append({"op": "multi", "steps": steps, "w": w, "shape": shape})
    return out


def history_case(rng, w, shape):
    """Every aggregation primitive on one population, the returned arrays edited in place by
    the caller, every primitive again, then again on a clone."""
    s = SYSTEMS[w["sys"]]
    n = len(w["groups"][0]["ids"])
    k = rng.randrange(len(s.groups))
    steps = [{"op": "nb", "k": k, "role": None}]
    ops = ["sum", "any", "all", "min", "max", "nb", "vfp", "nth", "first", "project", "rank", "nth", "sum"]
    for op in ops:
        if n == 0 and op in NEEDS_A_PERSON and not INCLUDE_ZERO_PERSONS:
            continue
        kk = k if rng.random() < 0.85 else 1 - k
        if op == "rank":
            kind = rng.choice(["int", "i64"])
            steps.append({"op": "rank", "k": kk, "kind": kind, "wide": True, "vals": gen_vals(rng, n, kind),
                          "cond": None if rng.random() < 0.5 else [rng.random() < 0.7 for _ in range(n)]})
        elif op == "nth":
            kind = rng.choice(SEL_KINDS)
            steps.append({"op": "nth", "k": kk, "kind": kind, "wide": True, "vals": gen_vals(rng, n, kind),
                          "n": rng.choice([0, 1, 2]), "default": gen_default(rng, kind)})
        elif op == "first":
            kind = rng.choice(SEL_KINDS)
            steps.append({"op": "first", "k": kk, "kind": kind, "wide": True, "vals": gen_vals(rng, n, kind)})
        else:
            r = pick_role(rng, s, kk, unique_only=(op == "vfp"), allow_none=(op != "vfp"))
            if r is None:
                if op == "nb":
                    st = {"op": "nb", "k": kk, "role": None}
                else:
                    st = gen_step(rng, s, w, kk, op, 0)
                    st["role"] = None
            else:
                st = gen_step(rng, s, w, kk, op, r)
            steps.append(st)
    head, tail = steps[:1], steps[1:]
    rng.shuffle(tail)
    steps = head + tail if rng.random() < 0.6 else tail + head
    return {"op": "multi", "history": True, "passes": 3, "scribble": rng.randrange(6), "steps": steps,
            "w": w, "shape": shape + "+history"}


def inf_cases(rng, w, shape):
    """Float arrays in which members OUTSIDE the requested role hold +inf / -inf (what min /
    max return for a group without the role, once projected back on its persons; 'no
    ceiling' amounts): the role-restricted aggregate must not see them."""
    s = SYSTEMS[w["sys"]]
    n = len(w["groups"][0]["ids"])
    out = []
    for k in range(len(s.groups)):
        g = w["groups"][k]
        r = pick_role(rng, s, k, allow_none=False)
        outside = [i for i in range(n) if not s.holds(k, r, g["roles"][i])]
        if not outside:
            continue
        for op in rng.sample(INF_OPS, 2):
            vals = [rng.randrange(0, 50) * rng.choice([1, 2, 4]) for _ in range(n)] if op == "any" \
                else gen_vals(rng, n, "float")
            hit = [i for i in outside if rng.random() < 0.6] or [rng.choice(outside)]
            for i in hit:
                vals[i] = rng.choice(["inf", "inf", "-inf"])
            out.append({"op": op, "k": k, "kind": "float", "wide": rng.random() < 0.7, "vals": vals,
                        "role": r, "w": w, "shape": shape + "+inf"})
    return out


def world_cases(rng, w, shape, heavy=True):
    s = SYSTEMS[w["sys"]]
    n = len(w["groups"][0]["ids"])
    out = []

    def add(c):
        c["w"] = w
        c["shape"] = shape
        if n == 0 and not INCLUDE_ZERO_PERSONS:
            if c["op"] in NEEDS_A_PERSON:
                return
            if c["op"] == "chain":
                wp = walk_path(s, c["start"], c["path"])
                if wp is None or any(kind in ("first", "containing") for kind, _, _ in wp[0]):
                    return
        out.append(c)

    for k in range(len(s.groups)):
        count = w["groups"][k]["count"]
        kinds = ["int", "float", "bool"]
        for op in ("sum", "min", "max"):
            kind = rng.choice(kinds if op == "sum" else SEL_KINDS)
            add({"op": op, "k": k, "kind": kind, "wide": rng.random() < 0.7, "vals": gen_vals(rng, n, kind),
                 "role": pick_role(rng, s, k)})
        for op in ("any", "all"):
            kind = "bool" if rng.random() < 0.8 else "int"
            add({"op": op, "k": k, "kind": kind, "wide": True, "vals": gen_vals(rng, n, kind),
                 "role": pick_role(rng, s, k)})
        add({"op": "nb", "k": k, "role": pick_role(rng, s, k)})
        kind = rng.choice(SEL_KINDS)
        add({"op": "vfp", "k": k, "kind": kind, "wide": rng.random() < 0.7, "vals": gen_vals(rng, n, kind),
             "role": pick_role(rng, s, k, unique_only=rng.random() < 0.85, allow_none=False),
             "default": gen_default(rng, kind)})
        kind = rng.choice(SEL_KINDS)
        add({"op": "nth", "k": k, "kind": kind, "wide": rng.random() < 0.7, "vals": gen_vals(rng, n, kind),
             "n": rng.choice([0, 0, 1, 1, 2, 3, 5, 12]),
             "default": gen_default(rng, kind)})
        kind = rng.choice(SEL_KINDS)
        add({"op": "first", "k": k, "kind": kind, "wide": True, "vals": gen_vals(rng, n, kind)})
        kind = rng.choice(SEL_KINDS)
        add({"op": "project", "k": k, "kind": kind, "wide": True, "vals": gen_vals(rng, count, kind),
             "role": pick_role(rng, s, k)})
        add({"op": "positions", "k": k})
        add({"op": "omm", "k": k})
        for kind in (rng.choice(["int", "int", "float"]), rng.choice(["i64", "f64"])):
            cond = None if rng.random() < 0.4 else [rng.random() < 0.7 for _ in range(n)]
            add({"op": "rank", "k": k, "kind": kind, "wide": True, "vals": gen_vals(rng, n, kind), "cond": cond})
    # projector chains
    g0, g1 = s.groups[0].key, s.groups[1].key
    uniq = {k: [str(s.role(k, r).key) for r in range(len(s.rows[k])) if s.role_max(k, r) == 1] for k in (0, 1)}
    paths = [(None, [g0]), (None, [g1]), (0, ["first_person"]), (1, ["first_person"]),
             (None, [g0, "first_person"]), (None, [g1, "first_person", g0]),
             (0, ["first_person", g1]), (0, ["first_person", g1, "first_person"]),
             (None, [g0, "first_person", g1, "first_person", g0])]
    for k in (0, 1):
        for name in uniq[k][:3]:
            paths.append((k, [name]))
            paths.append((None, [s.groups[k].key, name]))
            paths.append((k, [name, s.groups[1 - k].key]))
        for c in s.containing[k]:
            paths.append((k, [c]))
            paths.append((k, [c, "first_person"]))
    rng.shuffle(paths)
    for start, path in paths[: (6 if heavy else 3)]:
        # where does the path end?  (persons after first_person / unique role, else the named group)
        last = path[-1]
        end = next((j for j, g in enumerate(s.groups) if g.key == last), None)
        kind = rng.choice(SEL_KINDS)
        size = n if end is None else w["groups"][end]["count"]
        add({"op": "chain", "start": start, "path": path, "term": 0, "kind": kind, "wide": True,
             "vals": gen_vals(rng, size, kind), "role": None})
        if end is not None:
            term = rng.choice([1, 1, 2])
            kind = rng.choice(["int", "float", "bool"]) if term == 1 else "int"
            add({"op": "chain", "start": start, "path": path, "term": term, "kind": kind, "wide": True,
                 "vals": gen_vals(rng, n, kind) if term == 1 else [], "role": pick_role(rng, s, end)})
    out += multi_cases(rng, w, shape, 2 if heavy else 1)
    out.append(history_case(rng, w, shape))
    if n > 0:
        out += inf_cases(rng, w, shape)
    return out


def malformed_cases(rng, count_cases):
    out = []
    for _ in range(count_cases):
        w, shape = gen_world(rng, n=rng.choice([1, 2, 3, 5, 8]), strict=rng.random() < 0.5)
        s = SYSTEMS[w["sys"]]
        n = len(w["groups"][0]["ids"])
        k = rng.randrange(2)
        g = w["groups"][k]
        kind = rng.choice(["int", "float", "bool"])
        flavour = rng.choice(["size", "size", "overflow", "dup", "dup", "negn", "path", "nonunique", "pathsize"])
        base = {"w": w, "shape": "malformed-" + flavour, "k": k, "kind": kind, "wide": True}
        if flavour == "size":
            op = rng.choice(["sum", "min", "max", "all", "any", "vfp", "nth", "first", "project", "rank"])
            m = (g["count"] if op == "project" else n) + rng.choice([-1, 1, 2])
            c = dict(base, op=op, vals=gen_vals(rng, max(m, 0), kind), role=pick_role(rng, s, k), default=0, n=0, cond=None)
            if op == "vfp":
                c["role"] = pick_role(rng, s, k, unique_only=True, allow_none=False)
        elif flavour == "overflow":
            # a group index beyond count: bincount grows, the masks stop matching
            g["ids"][rng.randrange(n)] = g["count"] + rng.randrange(0, 2)
            op = rng.choice(["sum", "nb", "min", "nth", "first", "project", "any", "vfp", "rank", "positions"])
            c = dict(base, op=op, vals=gen_vals(rng, g["count"] if op == "project" else n, kind),
                     role=None, default=0, n=0, cond=None)
            if op == "vfp":
                c["role"] = pick_role(rng, s, k, unique_only=True, allow_none=False)
        elif flavour == "dup":
            # two holders of a unique role in one group
            uniq = [r for r in s.flat[k] if s.role_max(k, r) == 1]
            r = rng.choice(uniq) if uniq else s.flat[k][0]
            if n >= 2:
                i, j = rng.sample(range(n), 2)
                g["ids"][j] = g["ids"][i]
                g["roles"][i] = g["roles"][j] = r
            c = dict(base, op="vfp", vals=gen_vals(rng, n, kind), role=r, default=rng.randrange(-3, 4) if kind != "bool" else 0)
        elif flavour == "nonunique":
            rows = [r for r in range(len(s.rows[k])) if s.role_max(k, r) != 1]
            c = dict(base, op="vfp", vals=gen_vals(rng, n, kind), role=rng.choice(rows), default=0)
        elif flavour == "negn":
            c = dict(base, op="nth", vals=gen_vals(rng, n, kind), n=rng.choice([-1, -2]), default=0)
        elif flavour == "path":
            names = [s.groups[0].key, s.groups[1].key, "first_person", "person", "nobody"] + \
                    [str(role.key) for role, _ in s.rows[k]]
            path = [rng.choice(names) for _ in range(rng.randrange(1, 4))]
            start = rng.choice([None, 0, 1])
            c = dict(base, op="chain", start=start, path=path, term=rng.choice([0, 0, 1, 2]),
                     vals=gen_vals(rng, rng.choice([n, g["count"]]), kind), role=None)
            del c["k"]
        else:  # pathsize: a valid path applied to an array of the wrong size
            c = dict(base, op="chain", start=None, path=[s.groups[k].key], term=0,
                     vals=gen_vals(rng, g["count"] + 1, kind), role=None)
            del c["k"]
        out.append(c)
    return out


def fixed_cases():
    """The fixture of tests/core/test_entities.py-like shape plus the F7 input (last groups empty)."""
    out = []
    w = {"sys": "A", "idt": 64, "groups": [
        {"count": 2, "ids": [0, 0, 0, 0, 1, 1], "roles": [1, 2, 3, 3, 1, 3]},
        {"count": 3, "ids": [0, 0, 1, 1, 2, 2], "roles": [0, 0, 0, 0, 0, 0]}]}
    f7 = {"sys": "A", "idt": 64, "groups": [
        {"count": 4, "ids": [0, 0, 1], "roles": [1, 3, 4]},
        {"count": 2, "ids": [0, 0, 0], "roles": [0, 0, 1]}]}
    for ww, shape in ((w, "fixture"), (f7, "f7-trailing-empty")):
        n = len(ww["groups"][0]["ids"])
        vals = [1000, 2000, 0, 0, 3000, 500][:n]
        for op in ("sum", "min", "max", "all", "any"):
            for role in (None, 0, 3):
                out.append({"op": op, "w": ww, "shape": shape, "k": 0, "kind": "int", "wide": True, "vals": vals, "role": role})
        out.append({"op": "nb", "w": ww, "shape": shape, "k": 0, "role": None})
        out.append({"op": "nb", "w": ww, "shape": shape, "k": 0, "role": 0})
        out.append({"op": "first", "w": ww, "shape": shape, "k": 0, "kind": "int", "wide": True, "vals": vals})
        out.append({"op": "nth", "w": ww, "shape": shape, "k": 0, "kind": "int", "wide": True, "vals": vals, "n": 1, "default": -1})
        out.append({"op": "vfp", "w": ww, "shape": shape, "k": 0, "kind": "int", "wide": True, "vals": vals, "role": 1, "default": 0})
        out.append({"op": "rank", "w": ww, "shape": shape, "k": 0, "kind": "int", "wide": True, "vals": vals, "cond": None})
        out.append({"op": "positions", "w": ww, "shape": shape, "k": 0})
        out.append({"op": "omm", "w": ww, "shape": shape, "k": 0})
    return out


def generate(rng, tier):
    n_worlds = {"quick": 130, "escalated": 600, "thorough": 4000}[tier]
    n_bad = {"quick": 260, "escalated": 1200, "thorough": 6000}[tier]
    cases = fixed_cases()
    for i in range(n_worlds):
        # sizes: every population size 0..12 is visited in turn, then random
        n = i % 13 if i < 39 else None
        w, shape = gen_world(rng, n=n)
        cases += world_cases(rng, w, shape)
    cases += malformed_cases(rng, n_bad)
    cases += scale_cases(rng, tier)
    return cases



# ---- the SCALE stream (oracle only) ---------------------------------------------------------------------
# A few populations far beyond what the model can evaluate: one group with more members than an
# int16 can count, more groups than a uint16 can index.  The case is a few parameters and a seed;
# membership and values are re-derived from them (numpy RandomState) by the driver and by the
# oracle, which recomputes every answer with boolean masks per group, independently of bincount /
# argsort / position counters.

SCALE_NTH = (0, 32767, 32768)


def scale_world(c):
    rs = numpy.random.RandomState(c["seed"])
    s = SYSTEMS[c["sys"]]
    k = c["k"]
    if c["variant"] == "big":
        sizes = list(c["small"])
        sizes.insert(c["big_at"], c["n"])
        ids = numpy.repeat(numpy.arange(len(sizes)), sizes)
        rs.shuffle(ids)
        n = len(ids)
        roles = rs.choice(s.flat[k], size=n)
        vals = rs.randint(-1000, 1001, size=n)
        truth = numpy.ones(n, dtype=bool)
        late = numpy.flatnonzero(ids == c["big_at"])[-200:]       # the last members of the big group
        imax, imin, ifalse = (int(x) for x in rs.choice(late, size=3, replace=False))
        vals[imax], vals[imin], truth[ifalse] = 5000, -5000, False
        sample = sorted({int(x) for x in late[-20:]} | {int(x) for x in rs.randint(0, n, size=20)})
        return dict(count=len(sizes), ids=ids, roles=roles, vals=vals, truth=truth, sample=sample,
                    role=int(rs.choice(s.flat[k])))
    g = c["n"]                                                     # "many": g persons, each alone
    return dict(count=g, vals=rs.randint(-1000, 1001, size=g), gvals=rs.randint(-1000, 1001, size=g))


def _held(s, k, role_row, roles):
    rows = [role_row] + list(s.rows[k][role_row][0].subs)
    return numpy.isin(roles, rows)


def run_scale(c):
    s = SYSTEMS[c["sys"]]
    k = c["k"]
    sw = scale_world(c)
    out = []

    def rec(name, fn):
        out.append([name, guarded(fn)])

    if c["variant"] == "big":
        groups = []
        for j in range(len(s.groups)):
            if j == k:
                groups.append({"count": sw["count"], "ids": sw["ids"].tolist(), "roles": sw["roles"].tolist()})
            else:
                groups.append({"count": 1, "ids": [0] * len(sw["ids"]), "roles": [s.flat[j][0]] * len(sw["ids"])})
        sim, _ = build_simulation({"sys": c["sys"], "idt": c["idt"], "groups": groups})
        pop = sim.populations[s.groups[k].key]
        vals, truth = sw["vals"].astype(numpy.int64), sw["truth"]
        role = s.role(k, sw["role"])

        def positions():
            p = numpy.asarray(pop.members_position)
            return [int(p.min()), int(p.max()), int(p.astype(numpy.int64).sum()), [int(p[i]) for i in sw["sample"]]]
        rec("positions", positions)
        rec("sum", lambda: enc_ints(pop.sum(vals)))
        rec("sum_role", lambda: enc_ints(pop.sum(vals, role=role)))
        rec("nb", lambda: enc_ints(pop.nb_persons()))
        rec("nb_role", lambda: enc_ints(pop.nb_persons(role=role)))
        for op in c["reduce"]:
            if op == "all":
                rec("all", lambda: enc_bools(pop.all(truth)))
            else:
                rec(op, lambda op=op: enc_values(getattr(pop, op)(vals), 1))
        for nn in list(SCALE_NTH) + [c["n"] - 1, c["n"]]:
            rec(f"nth{nn}", lambda nn=nn: enc_ints(pop.value_nth_person(nn, vals, default=-7)))
        return out
    # many single-person groups, through the real SimulationBuilder (no group declared: everybody alone)
    g = c["n"]
    sim = SimulationBuilder().build_from_dict(s.tbs, {s.person.plural: {f"p{i}": {} for i in range(g)}})
    pop = sim.populations[s.groups[k].key]
    vals, gvals = sw["vals"].astype(numpy.int64), sw["gvals"].astype(numpy.int64)
    first = s.role(k, s.flat[k][0])
    other = s.role(k, s.flat[k][-1])
    rec("count", lambda: [int(pop.count), int(sim.persons.count)])
    rec("sum", lambda: enc_ints(pop.sum(vals)))
    rec("sum_first", lambda: enc_ints(pop.sum(vals, role=first)))
    rec("sum_other", lambda: enc_ints(pop.sum(vals, role=other)))
    rec("nb", lambda: enc_ints(pop.nb_persons()))
    rec("project", lambda: enc_ints(pop.project(gvals)))
    rec("chain", lambda: enc_ints(getattr(sim.persons, s.groups[k].key).transform_and_bubble_up(gvals)))
    return out


def scale_expected(c):
    s = SYSTEMS[c["sys"]]
    k = c["k"]
    sw = scale_world(c)
    exp = []
    if c["variant"] == "big":
        ids, vals, truth = sw["ids"], sw["vals"].astype(object), sw["truth"]
        held = _held(s, k, sw["role"], sw["roles"])
        groups = range(sw["count"])
        mem = [numpy.flatnonzero(ids == g) for g in groups]                  # members in storage order
        pos = numpy.empty(len(ids), dtype=object)
        for m in mem:
            pos[m] = list(range(len(m)))
        exp.append(["positions", [int(min(pos)), int(max(pos)), int(sum(pos)), [int(pos[i]) for i in sw["sample"]]]])
        exp.append(["sum", [int(sum(vals[m])) for m in mem]])
        exp.append(["sum_role", [int(sum(vals[m[held[m]]])) for m in mem]])
        exp.append(["nb", [len(m) for m in mem]])
        exp.append(["nb_role", [int(held[m].sum()) for m in mem]])
        for op in c["reduce"]:
            if op == "all":
                exp.append(["all", [bool(all(truth[m])) for m in mem]])
            elif op == "max":
                exp.append(["max", [int(max(vals[m])) if len(m) else "-inf" for m in mem]])
            else:
                exp.append(["min", [int(min(vals[m])) if len(m) else "inf" for m in mem]])
        for nn in list(SCALE_NTH) + [c["n"] - 1, c["n"]]:
            exp.append([f"nth{nn}", [int(vals[m[nn]]) if nn < len(m) else -7 for m in mem]])
        return exp
    g = c["n"]
    vals, gvals = sw["vals"].tolist(), sw["gvals"].tolist()
    exp.append(["count", [g, g]])
    exp.append(["sum", vals])
    exp.append(["sum_first", vals])
    exp.append(["sum_other", vals if len(s.flat[k]) == 1 else [0] * g])
    exp.append(["nb", [1] * g])
    exp.append(["project", gvals])
    exp.append(["chain", gvals])
    return exp


def scale_oracle(c, o):
    if isinstance(o, Err):
        return f"scale: raised {o.kind} ({o.msg})"
    what = f"{c['variant']} n={c['n']} seed={c['seed']} sys={c['sys']} k={c['k']}"
    for (name, got), (name2, exp) in zip(o, scale_expected(c)):
        assert name == name2
        if isinstance(got, Err):
            return f"scale: {name} raised {got.kind} ({got.msg}) [{what}]"
        if got != exp:
            if isinstance(got, list) and isinstance(exp, list) and len(got) == len(exp):
                j = next(i for i, (a, b) in enumerate(zip(got, exp)) if a != b)
                return f"scale: {name}[{j}] is {got[j]}, per-group definition gives {exp[j]} [{what}]"
            return f"scale: {name} is {str(got)[:80]}, per-group definition gives {str(exp)[:80]} [{what}]"
    return None


def scale_cases(rng, tier):
    out = []
    for _ in range({"quick": 1, "escalated": 1, "thorough": 2}[tier]):
        sys_name = rng.choice(["A", "C", "D"])
        small = [rng.choice([0, 1, 2, 3, 5]) for _ in range(rng.randrange(1, 5))]
        out.append({"op": "scale", "variant": "big", "sys": sys_name, "k": rng.randrange(2), "idt": rng.choice([64, 32]),
                    "n": rng.randrange(33000, 40001), "small": small, "big_at": rng.randrange(len(small) + 1),
                    "reduce": rng.sample(["min", "max", "all"], 2), "seed": rng.randrange(10 ** 6)})
        out.append({"op": "scale", "variant": "many", "sys": rng.choice(["A", "B", "C", "D"]), "k": rng.randrange(2),
                    "n": rng.randrange(66000, 70001), "seed": rng.randrange(10 ** 6)})
    return out


# ---- failing-input search helpers ------------------------------------------------------------------------

def neighbours(c, rng):
    if c["op"] == "scale":
        return []
    out = []
    for _ in range(30):
        w, shape = gen_world(rng, sys_name=c["w"]["sys"], n=len(c["w"]["groups"][0]["ids"]))
        for c2 in world_cases(rng, w, shape, heavy=False):
            if c2["op"] == c["op"]:
                out.append(c2)
    return out


def _drop_person(c, i):
    import copy
    c2 = copy.deepcopy(c)
    n = len(c["w"]["groups"][0]["ids"])
    for g in c2["w"]["groups"]:
        del g["ids"][i]
        del g["roles"][i]
    if c["op"] != "project" and not (c["op"] == "chain" and len(c.get("vals", [])) != n):
        if c2.get("vals") is not None and len(c2["vals"]) == n:
            del c2["vals"][i]
    if c2.get("cond"):
        del c2["cond"][i]
    return c2


def shrink(c, still_fails):
    """Greedy: drop persons while the oracle still fails."""
    if c["op"] == "scale":
        return None
    if c["op"] == "multi":
        # drop steps instead (from the end, then from the front)
        cur = c
        for side in (-1, 0):
            while len(cur["steps"]) > 1:
                steps = cur["steps"][:-1] if side == -1 else cur["steps"][1:]
                c2 = dict(cur, steps=steps)
                if not still_fails(c2):
                    break
                cur = c2
        return cur if cur is not c else None
    cur = c
    changed = True
    while changed:
        changed = False
        n = len(cur["w"]["groups"][0]["ids"])
        for i in range(n - 1, -1, -1):
            if n <= 1:
                break
            try:
                c2 = _drop_person(cur, i)
                if still_fails(c2):
                    cur = c2
                    changed = True
                    break
            except Exception:  # noqa: BLE001
                continue
    return cur if cur is not c else None
