"""C16 - inputs given on a longer period are conserved when spread over shorter ones.

A case is one variable (float or int; definition period day / month / year / week /
weekday / eternity; set_input = divide rule, dispatch rule or none; optional end date)
in a tiny TaxBenefitSystem with one person entity built here, a population of 1..3
persons, and a history of `simulation.set_input(var, period, array)` calls.  After every
call the driver records ok / error kind, the holder's known periods with their arrays
(storage order) and, where asked, `simulation.calculate_add(var, period)`.

The oracle evaluates the property's text on these observations with datetime and
Fraction only (independent tile enumeration, sums, shares); the Coq model
(SetInput.v) is compared on every observable.  Float amounts are dyadic; a step whose
division would not be exact in binary32 (predicted with Fraction by the generator) ends
its history, is compared on decisions and known periods only and with a tolerance by
the oracle, and is counted in the input distribution ("approx").
"""
from __future__ import annotations

import calendar
import datetime
import shutil
import warnings
from fractions import Fraction as F

import numpy

from openfisca_core import entities, holders, periods, taxbenefitsystems, variables
from openfisca_core.experimental import MemoryConfig
from openfisca_core.periods import DateUnit as U
from openfisca_core.periods import Instant, Period
from openfisca_core.simulations import SimulationBuilder

from common import Err, cbool, clist, copt, cq, cz, errkind

warnings.simplefilter("ignore")

PROP = "C16"
COQ_HEADER = "From Verif Require Import Cal Period SetInput Corr_C16."
COQ_RUN = "Corr_C16.run"
SHARD = 60
ANCHORS = ["openfisca_core/holders/helpers.py", "openfisca_core/holders/holder.py",
           "openfisca_core/simulations/simulation.py", "openfisca_core/data_storage/in_memory_storage.py",
           "openfisca_core/data_storage/on_disk_storage.py"]
RULE = ("histories of simulation.set_input on one real Variable (float/int x day/month/year/week/weekday/eternity "
        "x divide/dispatch/no rule, optional end date) with 1..3 persons: pre-set definition-period tiles in "
        "subset patterns (none, one, all-but-one, all, random; all subsets for small tilings), then 1..3 long "
        "inputs (calendar year, rolling year year:Y-M, 2-3 years, n months, months of 28..31 days for day "
        "variables, weeks for weekday variables, a few whole years of days) in both orders, then re-sets of "
        "known tiles; amounts built from dyadic shares so that binary32 stays exact (checked with Fraction; "
        "random amounts give the 'approx' histories, which stop at the first inexact step); int variables with "
        "divisible and non-divisible remainders; inputs as lists, float32/float64/int64 arrays and scalars, "
        "periods as Period objects or strings; plus a routing stream (no rule, mismatching units and sizes, "
        "eternity, wrong array length, unaligned and clipped starts, cross-family units, definition period "
        "longer than the input period, end dates).  About a third of the tiled histories run under "
        "MemoryConfig(max_memory_occupation=0) (every array goes to the on-disk storage; temp dir removed per "
        "case); histories also contain delete_arrays (first tile, a random tile, a sub-range, everything) "
        "followed by new long or short inputs, and - on disk, where the stored value is a copy - inputs passed "
        "through ONE numpy buffer of the variable's dtype refilled in place between calls.  Amounts are also "
        "passed as arrays of the variable's own dtype (not converted by the holder), as the SAME array object "
        "for two successive long periods, and as the array simulation.calculate returns for another variable "
        "(whose stored value must stay what it was).  A big-int stream gives int variables amounts whose equal "
        "share is an odd integer above 2^24 (exact in int32, not in binary32); a long-reading stream reads the "
        "variable (simulation.calculate) for every piece of a window of 1080..1461 pieces around a long input, "
        "then sums, confirms and contradicts the long period.  A fifth of the tiled histories clone the "
        "simulation (Simulation.clone) before a random step and run the rest of the history on the original "
        "and on the clone (either first): each must end up as the model says for the whole history.  Non-trivial: at least one long input was accepted or "
        "refused as a contradiction; distinct as whole histories")
TRUSTED = ["numpy float32 arithmetic on exactly representable dyadic values and int32 truncation are modelled by exact "
           "rationals / Z.quot in SetInput.v; covered by the correspondence only",
           "the harness's Fraction reference used to build amounts and predict binary32 exactness"]
ASSUMPTIONS = ["the theorems give conservation (sum = amount) when the equal share is representable in the variable's "
               "dtype: always in the model's rationals for float variables (binary32 rounding is not modelled), only "
               "for remainders divisible by the number of unknown sub-periods for int variables; the implementation "
               "truncates the share otherwise (10 over 12 months gives 0 everywhere): the oracle claims conservation "
               "there too and these cases are the OPEN known finding int-divide-truncates-share (model agrees)",
               "value equalities claimed for long periods tiled exactly by the definition period (same family, aligned "
               "start); other inputs are compared model-vs-code and for 'known values are never overwritten' only",
               "variable not neutralized; float values dyadic with |x| < 2^17; int values within int32 (shares up to "
               "2^31/k, above 2^24 in the big-int stream); years 1900..2040"]

UNITS = [U.WEEKDAY, U.WEEK, U.DAY, U.MONTH, U.YEAR, U.ETERNITY]
UCOQ = ["Weekday", "Week", "Day", "Month", "Year", "Eternity"]
WD, WK, DAY, MONTH, YEAR, ETER = range(6)
UCODE = {u: i for i, u in enumerate(UNITS)}
WEIGHT = {WD: 100, WK: 200, DAY: 100, MONTH: 200, YEAR: 300, ETER: 400}   # only used to skip calculate_add requests
RULES = {"div": holders.set_input_divide_by_period, "dis": holders.set_input_dispatch_by_period, "none": None}
RCOQ = {"div": "RDivide", "dis": "RDispatch", "none": "RNone"}
FAMILY = {(YEAR, YEAR), (YEAR, MONTH), (YEAR, DAY), (MONTH, MONTH), (MONTH, DAY), (DAY, DAY),
          (WK, WK), (WK, WD), (WD, WD)}     # (unit of the long period, definition unit)

# ---- the tax-benefit system ----------------------------------------------------------------

_person = entities.Entity("person", "persons", "", "")
_tbs = taxbenefitsystems.TaxBenefitSystem([_person])
_known_vars = set()


class src_float(variables.Variable):
    """where an amount may come from: simulation.calculate('src_float', period) is given to set_input"""
    value_type = float
    entity = _person
    definition_period = U.ETERNITY


class src_int(variables.Variable):
    value_type = int
    entity = _person
    definition_period = U.ETERNITY


_tbs.add_variable(src_float)
_tbs.add_variable(src_int)


def var_name(v):
    end = "noend" if v["end"] is None else "end%04d%02d%02d" % tuple(v["end"])
    return f"v_{v['vt']}_{UCOQ[v['def']].lower()}_{v['rule']}_{end}"


def ensure_var(v):
    name = var_name(v)
    if name not in _known_vars:
        attrs = {"value_type": {"float": float, "int": int}[v["vt"]], "entity": _person,
                 "definition_period": UNITS[v["def"]]}
        if RULES[v["rule"]] is not None:
            attrs["set_input"] = RULES[v["rule"]]
        if v["end"] is not None:
            attrs["end"] = "%04d-%02d-%02d" % tuple(v["end"])
        _tbs.add_variable(type(name, (variables.Variable,), attrs))
        _known_vars.add(name)
    return name


# ---- conversions -----------------------------------------------------------------------------

def mk_period(p):
    u, s, n = p
    return Period((UNITS[u], Instant(tuple(s)), n))


def enc_period(p):
    return [UCODE[p.unit], [p.start.year, p.start.month, p.start.day], p.size]


def frac(x):
    return F(x) if isinstance(x, int) else F(float(x))


def cdate(d):
    return f"({cz(d[0])}, {cz(d[1])}, {cz(d[2])})"


def cperiod(p):
    return f"({UCOQ[p[0]]}, {cdate(p[1])}, {cz(p[2])})"


def coq_case(c):
    v = c["var"]
    cv = (f"(mkVar {'VFloat' if v['vt'] == 'float' else 'VInt'} {UCOQ[v['def']]} {RCOQ[v['rule']]} "
          f"{copt(v['end'], cdate)})")
    steps = []
    for s in c["steps"]:
        if s.get("op") == "del":
            steps.append(f"(SDel {copt(s['p'], cperiod)})")
            continue
        if s.get("op") == "calc":
            steps.append(f"(SCalc {cperiod(s['p'])})")
            continue
        vals = clist([cq(frac(x)) for x in s["vals"]])
        steps.append(f"(SSet {cperiod(s['p'])} {vals} {cbool(s.get('add', False))} {cbool(s.get('approx', False))})")
    if c.get("clone_at") is not None:
        return f"(KClone {cv} {cz(c['n'])} {int(c['clone_at'])} {clist(steps)})"
    return f"(KHist {cv} {cz(c['n'])} {clist(steps)})"


# ---- implementation driver ---------------------------------------------------------------------

def input_value(s, vt):
    vals, form = s["vals"], s.get("form", "list")
    if form == "scalar":
        return vals[0]
    if form == "f32":
        return numpy.array(vals, dtype=numpy.float32)
    if form == "f64":
        return numpy.array(vals, dtype=numpy.float64)
    if form == "i64":
        return numpy.array(vals, dtype=numpy.int64)
    if form == "i32":
        return numpy.array(vals, dtype=numpy.int32)
    return list(vals)


def dump(holder):
    out = []
    for p in holder.get_known_periods():
        a = holder.get_array(p)
        out.append([enc_period(p), [frac(x.item()) for x in a]])
    return out


def period_arg(s):
    P = mk_period(s["p"])
    if s.get("as_str"):
        txt = str(P)
        try:
            if periods.period(txt) == P:
                return P, txt
        except Exception:  # noqa: BLE001
            pass
    return P, P


def cleanup(sim):
    # remove the simulation's temp dir now (and tell the storages not to try again when collected)
    for pop in sim.populations.values():
        for h in pop._holders.values():
            if h._disk_storage is not None:
                h._disk_storage.preserve_storage_dir = True
    d = sim._data_storage_dir
    if d is not None:
        shutil.rmtree(d, ignore_errors=True)


def run_impl(c):
    """One history on one simulation; with "clone_at" = k the simulation is cloned (Simulation.clone)
    before step k and the rest of the history is run, step by step, on both: [original's, clone's]."""
    name = ensure_var(c["var"])
    sim = SimulationBuilder().build_default_simulation(_tbs, count=c["n"])
    if c.get("disk"):
        # legal (experimental) configuration: every array is kept on disk, none in memory
        sim.memory_config = MemoryConfig(max_memory_occupation=0)
    k = c.get("clone_at")
    sims = [sim]
    try:
        first = Runner(c, name, sim)
        if k is None:
            return [first.step(s) for s in c["steps"]]
        out, out2 = [], []
        second = None
        for i, s in enumerate(c["steps"]):
            if i == k:
                sims.append(sim.clone())
                second = Runner(c, name, sims[1])
            if second is None:
                out.append(first.step(s))
            elif c.get("clone_first"):
                out2.append(second.step(s))
                out.append(first.step(s))
            else:
                out.append(first.step(s))
                out2.append(second.step(s))
        if second is None:
            sims.append(sim.clone())
        return [out, out2]
    finally:
        for x in sims:
            cleanup(x)


class Runner:
    """Applies the steps of a history to one simulation."""

    def __init__(self, c, name, sim):
        self.c, self.name, self.sim = c, name, sim
        self.buffers = {}      # one array object per length, refilled in place (form "buf")
        self.dtype = numpy.float32 if c["var"]["vt"] == "float" else numpy.int32
        self.src = "src_float" if c["var"]["vt"] == "float" else "src_int"
        self.last = None       # the array object given to the previous call (form "same" gives it again, as it is)

    def step(self, s):
        c, name, sim = self.c, self.name, self.sim
        if s.get("op") == "del":
            if s["p"] is None:
                sim.delete_arrays(name)
            else:
                sim.delete_arrays(name, period_arg(s)[1])
            return [0, dump(sim.get_holder(name)), None]
        if s.get("op") == "calc":
            # the variable is read for every definition-period piece of the window
            try:
                for t in spec_tiles(c["var"]["def"], s["p"]):
                    sim.calculate(name, mk_period([t[0], list(t[1]), t[2]]))
                status = 0
            except Exception as e:  # noqa: BLE001
                status = Err(errkind(e), f"{type(e).__name__}: {e}"[:200])
            return [status, dump(sim.get_holder(name)), None]
        P, arg = period_arg(s)
        if s.get("form") == "buf":
            buf = self.buffers.get(len(s["vals"]))
            if buf is None:
                buf = self.buffers[len(s["vals"])] = numpy.zeros(len(s["vals"]), dtype=self.dtype)
            buf[:] = s["vals"]
            value = buf
        elif s.get("form") == "same" and self.last is not None and len(self.last) == len(s["vals"]):
            value = self.last
        elif s.get("form") in ("same", "own"):
            value = numpy.array(s["vals"], dtype=self.dtype)       # already of the variable's dtype: not converted
        elif s.get("form") == "src":
            # the amount is another variable's value, as simulation.calculate returns it
            sim.set_input(self.src, periods.period(U.ETERNITY), list(s["vals"]))
            value = sim.calculate(self.src, P)
        else:
            value = input_value(s, c["var"]["vt"])
        self.last = value if isinstance(value, numpy.ndarray) else None
        try:
            sim.set_input(name, arg, value)
            status = 0
        except Exception as e:  # noqa: BLE001
            status = Err(errkind(e), f"{type(e).__name__}: {e}"[:200])
        add = None
        if s.get("add"):
            try:
                r = sim.calculate_add(name, P)
                add = [frac(x.item()) for x in numpy.asarray(r).reshape(-1)]
            except Exception as e:  # noqa: BLE001
                add = Err(errkind(e), f"{type(e).__name__}: {e}"[:200])
        o = [status, dump(sim.get_holder(name)), add]
        if s.get("form") == "src":
            # what the source variable holds after its value was used as an amount
            o.append([frac(x.item()) for x in sim.get_array(self.src, P)])
        return o


def split_obs(c, obs):
    """[(history observation as if run on one simulation, label)]: the original's, and - when the
    simulation was cloned before step k - the clone's, completed with the original's first k steps."""
    k = c.get("clone_at")
    if k is None:
        return [(obs, "")]
    return [(obs[0], ""), (obs[0][:k] + obs[1], " (on the cloned simulation)")]


def obs_for_coq(c, obs):
    if isinstance(obs, Err):
        return obs
    hists = [hist_for_coq(c, h) for h, _ in split_obs(c, obs)]
    if c.get("clone_at") is None:
        return hists[0]
    return [hists[0], hists[1][c["clone_at"]:]]


def hist_for_coq(c, obs):
    out = []
    before = {}
    for s, o in zip(c["steps"], obs):
        status, dmp, add = o[:3]
        diff = [kv for kv in dmp if before.get(key_of(kv[0])) != kv[1]]
        before = {key_of(k): vals for k, vals in dmp}
        if s.get("op") == "del":
            out.append([status, len(dmp), [compact(k) for k, _ in dmp], None])
        elif s.get("approx"):
            out.append([status, len(dmp), [compact(k) for k, _ in diff], None])
        else:
            out.append([status, len(dmp), [[compact(k), vals] for k, vals in diff], add])
    return out


def compact(encp):
    u, (y, m, d), n = encp
    return [u, y * 10000 + m * 100 + d, n]


# ---- independent calendar: the tiles the property speaks about -----------------------------------

def add_months_clip(d, k):
    t = d[0] * 12 + d[1] - 1 + k
    y, m = t // 12, t % 12 + 1
    return [y, m, min(d[2], calendar.monthrange(y, m)[1])]


def shift(d, k, u):
    """start + k units, as a date triple (month/year arithmetic clips the day)."""
    if u == YEAR:
        return add_months_clip(d, 12 * k)
    if u == MONTH:
        return add_months_clip(d, k)
    x = datetime.date.fromordinal(datetime.date(*d).toordinal() + (7 * k if u == WK else k))
    return [x.year, x.month, x.day]


def aligned(defu, start):
    if defu == YEAR:
        return start[1] == 1 and start[2] == 1
    if defu == MONTH:
        return start[2] == 1
    if defu == WK:
        return datetime.date(*start).isoweekday() == 1
    return True


def tiled_exactly(defu, P):
    """The property's hypothesis: the definition period tiles the long period exactly."""
    u, s, n = P
    return (u, defu) in FAMILY and n >= 1 and aligned(defu, s)


def spec_tiles(defu, P):
    """The definition-period-long pieces of P in order (only for tiled_exactly)."""
    u, s, n = P
    if defu in (DAY, WD):
        lo = datetime.date(*s).toordinal()
        hi = datetime.date(*shift(s, n, u)).toordinal()
        out = []
        for o in range(lo, hi):
            x = datetime.date.fromordinal(o)
            out.append((defu, (x.year, x.month, x.day), 1))
        return out
    if defu == MONTH:
        count = n * 12 if u == YEAR else n
        out = []
        y, m = s[0], s[1]
        for _ in range(count):
            out.append((MONTH, (y, m, 1), 1))
            m += 1
            if m == 13:
                y, m = y + 1, 1
        return out
    if defu == YEAR:
        return [(YEAR, (s[0] + i, 1, 1), 1) for i in range(n)]
    if defu == WK:
        lo = datetime.date(*s).toordinal()
        out = []
        for i in range(n):
            x = datetime.date.fromordinal(lo + 7 * i)
            out.append((WK, (x.year, x.month, x.day), 1))
        return out
    raise ValueError(defu)


def span(p):
    """first and last day (ordinals) of a dated period"""
    u, s, n = p
    return datetime.date(*s).toordinal(), datetime.date(*shift(list(s), n, u)).toordinal() - 1


def span_contains(P, k):
    a, b = span(P)
    c, d = span(k)
    return a <= c and d <= b


def key_of(encp):
    return (encp[0], tuple(encp[1]), encp[2])


def well_formed_input(c, s):
    """Array of the population's length, integers for an int variable."""
    if len(s["vals"]) != c["n"]:
        return False
    if c["var"]["vt"] == "int" and any(frac(x).denominator != 1 for x in s["vals"]):
        return False
    return True


def claimed(c, s):
    v = c["var"]
    return (v["rule"] in ("div", "dis") and v["end"] is None and v["def"] != ETER
            and s["p"][0] != ETER and tiled_exactly(v["def"], s["p"]) and well_formed_input(c, s))


def cast_q(vt, x):
    return F(int(x)) if vt == "int" else x


def close(a, b):
    return abs(a - b) <= F(1, 20000) * max(1, abs(a), abs(b))


def oracle(c, obs):
    """The property holds on every simulation for its own history of calls: the one built, and a clone of it
    taken mid-way that receives the rest of the history as well.  The open finding is reported last."""
    if isinstance(obs, Err):
        return f"driver-failed: {obs.kind} {obs.msg}"
    msgs = [(oracle_hist(c, h), label) for h, label in split_obs(c, obs)]
    for m, label in msgs:
        if m and not m.startswith("int-share-truncated:"):
            return m + label
    for m, label in msgs:
        if m:
            return m
    return None


def oracle_hist(c, obs):
    if isinstance(obs, Err):
        return f"driver-failed: {obs.kind} {obs.msg}"
    v = c["var"]
    rule = v["rule"]
    n = c["n"]
    before = {}
    truncated = None      # first failure of the open finding int-divide-truncates-share (reported last)
    for i, (s, o) in enumerate(zip(c["steps"], obs)):
        status, dmp, add = o[:3]
        after = {key_of(k): vals for k, vals in dmp}
        if len(o) > 3 and len(s["vals"]) == n and o[3] != [cast_q(v["vt"], frac(x)) for x in s["vals"]]:
            # "values already set are left untouched" holds for every holder, the amount's source included
            return (f"source-variable-modified: step {i} ({rule} rule, period {s['p']}): the amount was read from "
                    f"another variable holding {[frac(x) for x in s['vals']]}; after set_input it holds {o[3]}")
        eq = lambda a, b: a == b      # noqa: E731  (replaced by [close] when binary32 cannot be exact)
        where = f"step {i} ({rule} rule, period {s['p']})"
        if s.get("op") == "del":
            # delete_arrays forgets exactly the stored periods contained in the given one
            if isinstance(status, Err):
                return f"delete-failed: {where}: {status.kind} {status.msg}"
            if s["p"] is None or (s["p"][0] != ETER and all(k[0] != ETER for k in before)):
                expect = {k: vals for k, vals in before.items()
                          if not (s["p"] is None or span_contains(s["p"], k))}
                if after != expect:
                    return (f"delete-wrong: {where}: delete_arrays left {sorted(after.items())[:4]}.. "
                            f"where {sorted(expect.items())[:4]}.. was expected")
            before = after
            continue
        if len(after) != len(dmp):
            return f"duplicate-key: {where}: a period is listed twice among the known periods"
        if s.get("op") == "calc":
            # reading the variable leaves every value as it is; a piece without a value reads (and keeps) 0
            if isinstance(status, Err):
                return f"calculate-failed: {where}: {status.kind} {status.msg}"
            expect = dict(before)
            for t in spec_tiles(v["def"], s["p"]):
                expect.setdefault(t, [F(0)] * n)
            for k, vals in before.items():
                if k not in after:
                    return f"known-forgotten: {where}: {k} held {vals} and is not known any more after reading the variable"
            if after != expect:
                bad = [k for k in expect if after.get(k) != expect[k]][:3]
                return f"calculate-changed: {where}: after reading the variable {bad} hold {[after.get(k) for k in bad]}"
            before = after
            continue
        if rule in ("div", "dis"):
            for k, vals in before.items():
                if k not in after:
                    return f"known-forgotten: {where}: {k} was known before and is not any more"
                if after[k] != vals:
                    return f"known-overwritten: {where}: {k} held {vals} before and holds {after[k]} now"
        if claimed(c, s):
            A = [frac(x) for x in s["vals"]]
            T = spec_tiles(v["def"], s["p"])
            known = [t for t in T if t in before]
            unknown = [t for t in T if t not in before]
            k = len(unknown)
            ksum = [sum((before[t][e] for t in known), F(0)) for e in range(n)]
            extra = set(after) - set(before) - set(T)
            if extra:
                return f"foreign-period-set: {where}: periods outside the long period were set: {sorted(extra)[:3]}"
            if rule == "dis":
                if isinstance(status, Err):
                    return f"dispatch-refused: {where}: {status.kind} {status.msg}"
                for t in unknown:
                    if t not in after:
                        return f"dispatch-missing: {where}: sub-period {t} received no value"
                    if after[t] != A:
                        return f"dispatch-value: {where}: sub-period {t} received {after[t]} instead of {A}"
            else:
                if k == 0:
                    if ksum == A:
                        if isinstance(status, Err):
                            return f"consistent-refused: {where}: amount equals the sum of the known values but {status.kind}"
                    else:
                        if not isinstance(status, Err):
                            return (f"contradiction-accepted: {where}: all sub-periods known with sum {ksum}, "
                                    f"amount {A} was accepted")
                        if status.kind != "EValue":
                            return f"contradiction-error-kind: {where}: {status.kind}"
                    if set(after) != set(before):
                        return f"holder-changed: {where}: nothing was left to fill, yet the known periods changed"
                else:
                    if isinstance(status, Err):
                        return f"divide-refused: {where}: {k} sub-periods unknown but {status.kind} {status.msg}"
                    share = [(A[e] - ksum[e]) / k for e in range(n)]
                    representable = v["vt"] == "float" or all(x.denominator == 1 for x in share)
                    if v["vt"] == "float" and not (all(f32_exact(x) for x in share + A + ksum)
                                                   and sums_exact([after.get(t, []) for t in T], n)):
                        eq = close            # binary32 rounds here: compare with a tolerance
                    for t in unknown:
                        if t not in after:
                            return f"divide-missing: {where}: sub-period {t} received no value"
                        if after[t] != after[unknown[0]]:
                            return f"divide-unequal: {where}: {unknown[0]} got {after[unknown[0]]}, {t} got {after[t]}"
                        if representable and not all(eq(x, y) for x, y in zip(after[t], share)):
                            return f"divide-share: {where}: sub-period {t} received {after[t]} instead of {share}"
                    if not representable and truncated is None:
                        # int variable, remainder not divisible: the property still promises the amount back
                        tot = [sum((after[t][e] for t in T), F(0)) for e in range(n)]
                        if tot != A or (add is not None and add != A):
                            truncated = (f"int-share-truncated: {where}: int variable, {k} sub-periods to fill with "
                                         f"{[A[e] - ksum[e] for e in range(n)]}: each received {after[unknown[0]]} "
                                         f"instead of {share}; the sub-periods sum to {tot}"
                                         + (f", calculate_add returned {add}" if add is not None else "")
                                         + f", amount was {A}")
                    if representable:
                        tot = [sum((after[t][e] for t in T), F(0)) for e in range(n)]
                        if not all(eq(x, y) for x, y in zip(tot, A)):
                            return f"divide-sum: {where}: the sub-periods sum to {tot}, amount was {A}"
                        if add is not None:
                            if isinstance(add, Err):
                                return f"calculate-add-failed: {where}: {add.kind} {add.msg}"
                            if len(add) != n or not all(eq(x, y) for x, y in zip(add, A)):
                                return f"calculate-add: {where}: calculate_add returned {add}, amount was {A}"
            if rule == "dis" and add is not None and not known and not isinstance(status, Err):
                # none was set before: the sum over the period is the value times the number of pieces
                if isinstance(add, Err):
                    return f"calculate-add-failed: {where}: {add.kind} {add.msg}"
                if add != [a * len(T) for a in A]:
                    return f"calculate-add: {where}: calculate_add returned {add}, expected {len(T)} x {A}"
        before = after
    return truncated


def known(c, obs, msg):
    """Signature of the open finding: int variable under the divide rule whose remainder (amount minus
    the known values) is not divisible by the number of unknown sub-periods, and no other failure."""
    if not msg or not msg.startswith("int-share-truncated:") or isinstance(obs, Err):
        return None
    v = c["var"]
    if v["vt"] != "int" or v["rule"] != "div":
        return None
    for h, _ in split_obs(c, obs):
        if known_hist(c, h):
            return "int-divide-truncates-share"
    return None


def known_hist(c, obs):
    v = c["var"]
    before = {}
    for s, o in zip(c["steps"], obs):
        after = {key_of(k): vals for k, vals in o[1]}
        if s.get("op") not in ("del", "calc") and claimed(c, s) and not isinstance(o[0], Err):
            T = spec_tiles(v["def"], s["p"])
            unknown = [t for t in T if t not in before]
            if unknown:
                A = [frac(x) for x in s["vals"]]
                rem = [A[e] - sum((before[t][e] for t in T if t in before), F(0)) for e in range(c["n"])]
                if any((r / len(unknown)).denominator != 1 for r in rem):
                    return "int-divide-truncates-share"
        before = after
    return None


# ---- evidence helpers -------------------------------------------------------------------------------

def sums_exact(arrays, n):
    """every partial sum (in order) of the observed arrays is exact in binary32"""
    for e in range(n):
        acc = F(0)
        for a in arrays:
            if len(a) != n:
                return False
            acc += a[e]
            if not f32_exact(acc):
                return False
    return True


def nontrivial(c, o):
    """A rule spread an input over at least two sub-periods, or refused a contradiction."""
    if isinstance(o, Err) or c["var"]["rule"] == "none":
        return False
    o = split_obs(c, o)[0][0]
    size = 0
    for st in o:
        if isinstance(st[0], Err) and st[0].kind == "EValue" and len(st[1]) > 0:
            return True
        if st[0] == 0 and len(st[1]) >= size + 2:
            return True
        size = len(st[1])
    return False


def classify(c, o):
    v = c["var"]
    tag = f"{c.get('stream', '?')}:{v['vt']}:{UCOQ[v['def']]}:{v['rule']}"
    if c.get("disk"):
        tag += ":disk"
    if any(s.get("op") == "del" for s in c["steps"]):
        tag += ":del"
    if any(s.get("op") == "calc" for s in c["steps"]):
        tag += ":calc"
    if any(s.get("approx") for s in c["steps"]):
        tag += ":approx"
    if c.get("clone_at") is not None:
        tag += ":clone"
    if isinstance(o, Err):
        return tag + ":driver-" + o.kind
    o = split_obs(c, o)[0][0]
    kinds = sorted({st[0].kind for st in o if isinstance(st[0], Err)})
    if kinds:
        tag += ":" + "+".join(kinds)
    return tag


def normalise(c):
    """Recompute the per-step flags of a (shrunk / modified) history with the Fraction reference:
    a step that binary32 cannot represent exactly is marked approx and ends the history."""
    ref = Ref(c["var"], c["n"])
    steps = []
    for s in c["steps"]:
        s = dict(s)
        if s.get("op") == "del":
            ref.delete(s["p"])
            steps.append(s)
            continue
        if s.get("op") == "calc":
            ref.calc(s["p"])
            steps.append(s)
            continue
        s.pop("approx", None)
        ref.inexact = False
        ref.set_input(s["p"], s["vals"])
        if s.get("add") and not (claimed(c, s) and ref.add_exact(s["p"])):
            if claimed(c, s):
                ref.inexact = True
            else:
                s.pop("add")
        if ref.inexact:
            s["approx"] = True
            s.pop("add", None)
            steps.append(s)
            break
        steps.append(s)
    c = dict(c, steps=steps)
    if c.get("clone_at") is not None:
        c["clone_at"] = min(c["clone_at"], len(steps))
    return c


def shrink(c, still_fails):
    cur = c
    if c.get("clone_at") is not None:
        cand = {k: v for k, v in c.items() if k not in ("clone_at", "clone_first")}
        if still_fails(cand):
            cur = cand
    progress = True
    while progress:
        progress = False
        i = 0
        while i < len(cur["steps"]) and len(cur["steps"]) > 1:
            cand = dict(cur, steps=cur["steps"][:i] + cur["steps"][i + 1:])
            if cur.get("clone_at") is not None and i < cur["clone_at"]:
                cand["clone_at"] = cur["clone_at"] - 1
            cand = normalise(cand)
            if still_fails(cand):
                cur, progress = cand, True
            else:
                i += 1
        if cur["n"] > 1:
            cand = normalise(dict(cur, n=1, steps=[s if s.get("op") in ("del", "calc") else dict(s, vals=s["vals"][:1])
                                                   for s in cur["steps"]]))
            if still_fails(cand):
                cur, progress = cand, True
    return cur


def neighbours(c, rng):
    out = []
    for rule in ("div", "dis"):
        for vt in ("float", "int"):
            d = dict(c)
            d["var"] = dict(c["var"], rule=rule, vt=vt)
            d["steps"] = [s if s.get("op") in ("del", "calc") else dict(s, vals=[int(frac(x)) for x in s["vals"]])
                          for s in c["steps"]]
            out.append(normalise(d))
    out.append(dict(c, disk=not c.get("disk"),
                    steps=[dict(s, form="list") if s.get("form") == "buf" else s for s in c["steps"]]))
    for i in range(len(c["steps"])):
        out.append(normalise(dict(c, steps=c["steps"][:i + 1])))
    return out


# ---- reference (Fraction) used by the generator only ---------------------------------------------------

def f32_exact(x):
    """x is exactly representable in binary32 (normal range, |x| < 2^24 * ulp)."""
    if x == 0:
        return True
    d = x.denominator
    if d & (d - 1):
        return False
    num = abs(x.numerator)
    while num % 2 == 0:
        num //= 2
    return num < 2 ** 24 and d <= 2 ** 40 and abs(x) < 2 ** 60


class Ref:
    """What the rules are expected to do, on Fractions, following the walk of the helpers;
    used to build amounts (sum of the known values, exact shares) and to predict binary32
    exactness.  It is not an oracle."""

    def __init__(self, var, n):
        self.var, self.n, self.h = var, n, {}
        self.inexact = False

    def cast(self, x):
        if self.var["vt"] == "int":
            return F(int(x))       # truncation toward zero
        if not f32_exact(x):
            self.inexact = True
        return x

    def walk(self, P):
        u, s, n = P
        defu = self.var["def"]
        after = tuple(shift(s, n, u))
        cur = list(s)
        out = []
        while tuple(cur) < after:
            out.append((defu, tuple(cur), 1))
            cur = shift(cur, 1, defu)
        return out

    def delete(self, P):
        if P is None:
            self.h = {}
        else:
            self.h = {k: v for k, v in self.h.items() if k[0] == ETER or P[0] == ETER or not span_contains(P, k)}

    def calc(self, P):
        for t in spec_tiles(self.var["def"], P):
            self.h.setdefault(t, [F(0)] * self.n)

    def known_sum(self, T):
        return [sum((self.h[t][e] for t in T if t in self.h), F(0)) for e in range(self.n)]

    def set_input(self, P, vals):
        """returns 'ok' / 'err' (state unchanged on err)."""
        v = self.var
        P = (P[0], tuple(P[1]), P[2])
        if v["end"] is not None:
            if P[0] == ETER:
                return "err"
            if P[1] > tuple(v["end"]):
                return "ok"
        if P[0] == ETER and v["def"] != ETER:
            return "err"
        if len(vals) != self.n:
            return "err"
        a = [self.cast(frac(x)) for x in vals]
        if v["rule"] == "none":
            if v["def"] == ETER:
                self.h[(ETER, (-1, -1, -1), -1)] = a
                return "ok"
            if P[0] != v["def"] or P[2] > 1:
                return "err"
            self.h[P] = a
            return "ok"
        if v["def"] == ETER:
            return "err"
        T = self.walk(P)
        if v["rule"] == "dis":
            for t in T:
                if t not in self.h:
                    self.h[t] = list(a)
            return "ok"
        rem = list(a)
        k = 0
        for t in T:
            if t in self.h:
                rem = [x - y for x, y in zip(rem, self.h[t])]
                if v["vt"] == "float" and not all(f32_exact(x) for x in rem):
                    self.inexact = True
            else:
                k += 1
        if k > 0:
            share = [self.cast(x / k) for x in rem]
            for t in T:
                if t not in self.h:
                    self.h[t] = list(share)
            return "ok"
        return "ok" if all(x == 0 for x in rem) else "err"

    def add_exact(self, P):
        """partial sums of calculate_add stay exact in binary32 (float variables)."""
        if self.var["vt"] == "int":
            return True
        T = spec_tiles(self.var["def"], P)
        for e in range(self.n):
            acc = F(0)
            for t in T:
                acc += self.h.get(t, [F(0)] * self.n)[e]
                if not f32_exact(acc):
                    return False
        return True


# ---- generation ------------------------------------------------------------------------------------------

def rand_val(rng, vt, small=False):
    if vt == "int":
        return rng.randrange(-20, 60) if not small else rng.randrange(-3, 8)
    return rng.randrange(-80, 240) / 4 if not small else rng.randrange(-8, 24) / 4


def rand_form(rng, vt, vals, n):
    ints = all(isinstance(x, int) or float(x) == int(x) for x in vals)
    forms = ["list", "list", "f64"]
    if vt == "float":
        forms += ["f32"]
    if ints:
        forms += ["i64", "i32"]
    if n == 1:
        forms += ["scalar"]
    f = rng.choice(forms)
    if f in ("i64", "i32"):
        vals = [int(x) for x in vals]
    return f, vals


def rand_monday(rng):
    o = datetime.date(rng.randrange(1995, 2036), rng.randrange(1, 13), rng.randrange(1, 29)).toordinal()
    o -= (o - 1) % 7
    x = datetime.date.fromordinal(o)
    return [x.year, x.month, x.day]


def long_periods(rng, defu, big=False):
    """A base long period tiled exactly by the definition unit, plus overlapping ones."""
    y = rng.choice([1996, 2000, 2015, 2019, 2020, 2023, 2024, 2031])
    out = []
    if defu == MONTH:
        m = rng.randrange(1, 13)
        out = [[YEAR, [y, 1, 1], 1], [YEAR, [y, m, 1], 1], [YEAR, [y - 1, rng.randrange(1, 13), 1], 2],
               [MONTH, [y, m, 1], rng.randrange(2, 8)], [YEAR, [y, 1, 1], rng.choice([2, 3])],
               [MONTH, [y, rng.randrange(1, 13), 1], 1], [YEAR, [y + 1, 1, 1], 1], [MONTH, [y, 11, 1], 4]]
    elif defu == DAY:
        m = rng.choice([1, 2, 2, 2, 3, 4, 6, 12])
        d = rng.randrange(1, 29)
        out = [[MONTH, [y, m, 1], 1], [MONTH, [y, 2, 1], 1], [DAY, [y, m, d], rng.randrange(2, 12)],
               [MONTH, [y, m, d], 1], [MONTH, [y, m, 1], 2], [DAY, [y, 2, 25], 8], [MONTH, [y, 1, 31], 1],
               [DAY, [y, m, 1], 1]]
        if big:
            out = [[YEAR, [y, 1, 1], 1], [YEAR, [y, 3, 1], 1], [MONTH, [y, 2, 1], 1], [MONTH, [y, 12, 1], 3]]
    elif defu == YEAR:
        out = [[YEAR, [y, 1, 1], rng.randrange(2, 5)], [YEAR, [y + 1, 1, 1], 2], [YEAR, [y, 1, 1], 1],
               [YEAR, [y - 1, 1, 1], 3], [YEAR, [y + 2, 1, 1], 1]]
    elif defu == WK:
        s = rand_monday(rng)
        out = [[WK, s, rng.randrange(2, 7)], [WK, shift(s, 1, WK), 3], [WK, s, 1], [WK, shift(s, -1, WK), 4]]
    elif defu == WD:
        s = rand_monday(rng)
        out = [[WK, s, 1], [WK, s, 2], [WD, shift(s, 2, DAY), rng.randrange(2, 9)], [WK, shift(s, 1, WK), 1],
               [WD, shift(s, 5, DAY), 4]]
    return out


def subset_pattern(rng, T, pattern=None):
    k = len(T)
    pattern = pattern or rng.choice(["none", "one", "two", "all-but-one", "all", "random", "random", "prefix",
                                     "suffix", "alternate"])
    if pattern == "none":
        return []
    if pattern == "one":
        return [rng.choice(T)]
    if pattern == "two":
        return rng.sample(T, min(2, k))
    if pattern == "all-but-one":
        i = rng.randrange(k)
        return T[:i] + T[i + 1:]
    if pattern == "all":
        return list(T)
    if pattern == "prefix":
        return T[:rng.randrange(1, k + 1)]
    if pattern == "suffix":
        return T[rng.randrange(0, k):]
    if pattern == "alternate":
        return T[rng.randrange(2)::2]
    p = rng.random()
    return [t for t in T if rng.random() < p]


class Builder:
    """Accumulates the steps of one history and keeps the Fraction reference in step."""

    def __init__(self, rng, var, n, stream, disk=False):
        self.rng, self.var, self.n, self.stream, self.disk = rng, var, n, stream, disk
        self.ref = Ref(var, n)
        self.steps = []
        self.closed = False

    def push(self, P, vals, role, form=None, want_add=None):
        if self.closed:
            return
        rng, v = self.rng, self.var
        P = [P[0], list(P[1]), P[2]]
        if form is None:
            form, vals = rand_form(rng, v["vt"], vals, len(vals))
            if (self.disk and rng.random() < 0.4 and len(vals) == self.n
                    and (v["vt"] == "float" or all(frac(x).denominator == 1 for x in vals))):
                # the caller's one buffer of the variable's dtype, refilled in place for every input
                # (only on disk: in memory the holder keeps the very object it is given)
                form = "buf"
                vals = [int(frac(x)) for x in vals] if v["vt"] == "int" else [float(x) for x in vals]
            elif (rng.random() < 0.15 and len(vals) == self.n and v["def"] != ETER
                    and (v["vt"] == "float" or all(frac(x).denominator == 1 for x in vals))):
                # the amount comes out of another variable (simulation.calculate), or is an array of the
                # variable's own dtype: neither is converted - hence not copied - by the holder
                form = rng.choice(["src", "own"])
                vals = [int(frac(x)) for x in vals] if v["vt"] == "int" else [float(x) for x in vals]
        step = {"p": P, "vals": list(vals), "form": form, "role": role, "as_str": rng.random() < 0.4}
        self.ref.inexact = False
        self.ref.set_input(P, vals)
        c = {"var": v, "n": self.n}
        if want_add is None:
            want_add = role == "long"
        can_add = claimed(c, step)
        if can_add and want_add:
            if not self.ref.add_exact(P):
                self.ref.inexact = True
            step["add"] = True
        if self.ref.inexact:
            step["approx"] = True
            step.pop("add", None)
            self.closed = True
        self.steps.append(step)

    def delete(self, P):
        if self.closed:
            return
        P = None if P is None else [P[0], list(P[1]), P[2]]
        self.ref.delete(None if P is None else (P[0], tuple(P[1]), P[2]))
        self.steps.append({"op": "del", "p": P, "as_str": self.rng.random() < 0.4})

    def calc(self, P):
        if self.closed:
            return
        self.ref.calc((P[0], tuple(P[1]), P[2]))
        self.steps.append({"op": "calc", "p": [P[0], list(P[1]), P[2]]})

    def tile_vals(self, small=False):
        return [rand_val(self.rng, self.var["vt"], small) for _ in range(self.n)]

    def amount_for(self, P, mode):
        """Amount for a long input on P given the reference state."""
        rng, v, ref = self.rng, self.var, self.ref
        T = ref.walk((P[0], tuple(P[1]), P[2])) if v["def"] != ETER and P[0] != ETER else []
        ksum = ref.known_sum(T)
        k = sum(1 for t in T if t not in ref.h)
        if mode == "random":
            return [frac(rand_val(rng, v["vt"])) for _ in range(self.n)]
        if mode == "indivisible" and k > 1:
            return [ksum[e] + k * F(rng.randrange(-5, 20)) + rng.randrange(1, k) for e in range(self.n)]
        if k == 0:
            if mode == "contradict":
                e0 = rng.randrange(self.n)
                return [ksum[e] + (F(rng.choice([-2, -1, 1, 3])) / (1 if v["vt"] == "int" else rng.choice([1, 2, 4]))
                                   if e == e0 or rng.random() < 0.3 else F(0)) for e in range(self.n)]
            return list(ksum)
        share = [frac(rand_val(rng, v["vt"], small=True)) for _ in range(self.n)]
        if v["vt"] == "float" and rng.random() < 0.3:
            share = [s + F(rng.randrange(0, 8), 8) for s in share]
        return [ksum[e] + k * share[e] for e in range(self.n)]

    def long(self, P, mode=None):
        if self.closed:
            return
        mode = mode or self.rng.choices(["exact", "random", "contradict", "indivisible"], [70, 10, 12, 8])[0]
        amt = self.amount_for(P, mode)
        vals = [int(x) if x.denominator == 1 and (self.var["vt"] == "int" or self.rng.random() < 0.3) else float(x)
                for x in amt]
        self.push(P, vals, "long")

    def long_twice(self, P):
        """One array object of the variable's dtype given, unchanged, for two successive long periods."""
        if self.closed:
            return
        amt = self.amount_for(P, "exact")
        vals = [int(x) if self.var["vt"] == "int" else float(x) for x in amt]
        if self.var["vt"] == "int" and any(x.denominator != 1 for x in amt):
            return
        nxt = [P[0], shift(P[1], P[2], P[0]), P[2]]
        self.push(P, vals, "long", form="own")
        self.push(nxt, vals, "long", form="same")

    def case(self):
        c = {"var": self.var, "n": self.n, "steps": self.steps, "stream": self.stream}
        if self.disk:
            c["disk"] = True
        return c

    def forget_and_refill(self, base, T):
        """delete_arrays on the first tile / a tile / a sub-range / the whole period / everything,
        then give values again (long input, or the tile itself, then a long input)."""
        rng = self.rng
        if not T:
            return
        r = rng.random()
        if r < 0.45:
            D = T[0]
        elif r < 0.65:
            D = rng.choice(T)
        elif r < 0.8:
            D = [T[0][0], T[0][1], rng.randrange(1, min(len(T), 4) + 1)]
        elif r < 0.92:
            D = base
        else:
            D = None
        self.delete(D)
        r = rng.random()
        if r < 0.5:
            self.long(base, mode=rng.choice(["exact", "exact", "random"]))
        else:
            t = D if D is not None and D[2] == 1 and D[0] == self.var["def"] else T[0]
            self.push(t, self.tile_vals(), "tile-refill")
            self.long(base, mode=rng.choice(["exact", "contradict"]))


def tiles_as_periods(T):
    return [[t[0], list(t[1]), t[2]] for t in T]


def structured(rng, var, stream, big=False, pattern=None, base=None):
    n = 1 if big else rng.choice([1, 1, 2, 2, 3])
    b = Builder(rng, var, n, stream, disk=rng.random() < 0.35)
    defu = var["def"]
    cands = long_periods(rng, defu, big)
    base = base or cands[0] if rng.random() < 0.5 or big else rng.choice(cands)
    T = tiles_as_periods(spec_tiles(defu, base)) if tiled_exactly(defu, base) else tiles_as_periods(b.ref.walk(base))
    pre = subset_pattern(rng, T, pattern) if T else []
    pre = list(pre)
    if rng.random() < 0.5:
        rng.shuffle(pre)
    for t in pre:
        b.push(t, b.tile_vals(), "tile")
    n_long = 1 if big else rng.choice([1, 1, 2, 2, 3])
    longs = [base] + [rng.choice(cands) for _ in range(n_long - 1)]
    if rng.random() < 0.5:
        rng.shuffle(longs)
    for P in longs:
        b.long(P)
        if rng.random() < 0.15 and T:
            b.push(rng.choice(T), b.tile_vals(), "tile-late")
    if rng.random() < (0.15 if big else 0.4) and tiled_exactly(defu, base):
        b.forget_and_refill(base, T)
    if not big and rng.random() < 0.25 and tiled_exactly(defu, base):
        if rng.random() < 0.5:
            b.delete(base)             # start again from the pre-set tiles only
            for t in pre[:3]:
                b.push(t, b.tile_vals(), "tile")
        b.long_twice(base)
    r = rng.random()
    if r < 0.35 and T and not big:
        # set a tile again: the same value (accepted) or another one (divide: refused; dispatch: ignored)
        t = rng.choice(T)
        key = (t[0], tuple(t[1]), t[2])
        if key in b.ref.h and rng.random() < 0.5:
            vals = [int(x) if x.denominator == 1 else float(x) for x in b.ref.h[key]]
            b.push(t, vals, "tile-again-same")
        else:
            b.push(t, b.tile_vals(), "tile-again")
    elif r < 0.6:
        b.long(base, mode=rng.choice(["exact", "contradict"]))
    c = b.case()
    if not big and len(c["steps"]) >= 2 and rng.random() < 0.2:
        # the simulation is cloned mid-way; the rest of the history goes to the original and to the clone
        c["clone_at"] = rng.randrange(1, len(c["steps"]))
        c["clone_first"] = rng.random() < 0.5
    return c


def all_subsets(rng, var, stream, base):
    """One history per subset of the tiles of a small tiling."""
    defu = var["def"]
    T = tiles_as_periods(spec_tiles(defu, base))
    out = []
    for mask in range(1 << len(T)):
        b = Builder(rng, var, rng.choice([1, 2]), stream, disk=rng.random() < 0.3)
        for i, t in enumerate(T):
            if mask >> i & 1:
                b.push(t, b.tile_vals(), "tile")
        b.long(base, mode="exact" if mask != (1 << len(T)) - 1 or rng.random() < 0.5 else "contradict")
        out.append(b.case())
    return out


def routing(rng, stream="routing"):
    """Mostly outside the property's hypothesis: compared model-vs-code."""
    vt = rng.choice(["float", "int"])
    defu = rng.choice([WD, WK, DAY, MONTH, YEAR, ETER])
    rule = rng.choice(["none", "none", "div", "dis"])
    end = rng.choice([None, None, None, [2019, 6, 30], [2020, 2, 29]])
    var = {"vt": vt, "def": defu, "rule": rule, "end": end}
    n = rng.choice([1, 2, 3])
    b = Builder(rng, var, n, stream)
    y = rng.choice([2018, 2019, 2020, 2021])
    pool = [[YEAR, [y, 1, 1], 1], [YEAR, [y, 3, 1], 1], [YEAR, [y, 3, 15], 1], [MONTH, [y, rng.randrange(1, 13), 1], 1],
            [MONTH, [y, 1, 31], 2], [MONTH, [y, 5, 15], 3], [MONTH, [y, 1, 1], 2], [DAY, [y, 2, 27], 1],
            [DAY, [y, 2, 27], 3], [WK, rand_monday(rng), 1], [WK, rand_monday(rng), 2], [WD, rand_monday(rng), 1],
            [WD, [y, 6, 5], 3], [ETER, [-1, -1, -1], -1], [YEAR, [y, 1, 1], 2], [WK, [y, 1, 1], 3],
            [YEAR, [2020, 2, 29], 1], [MONTH, [y, 6, 1], 1], [MONTH, [y, 7, 1], 1], [YEAR, [y, 7, 1], 1]]
    if defu in (DAY, WD):
        pool = [p for p in pool if not (p[0] == YEAR and p[2] > 1)]
    for _ in range(rng.choice([1, 2, 3, 4])):
        P = rng.choice(pool)
        big = (defu in (DAY, WD) and P[0] == YEAR) or (defu == WK and P[0] == YEAR and P[2] > 1)
        if big and rng.random() < 0.7:
            continue
        vals = [rand_val(rng, vt, small=True) for _ in range(n)]
        form = None
        r = rng.random()
        if r < 0.12:
            vals = vals + [1]                         # one too many
        elif r < 0.2 and n > 1:
            vals = vals[:-1]                          # one too few
        elif r < 0.25 and n > 1:
            vals, form = vals[:1], "scalar"           # a scalar for several persons
        elif r < 0.33 and vt == "int":
            vals = [x + rng.choice([0.5, -0.5, 0.25]) for x in vals]   # truncated toward zero by the cast
        if rule != "none" and rng.random() < 0.4 and len(vals) == n and defu != ETER and P[0] != ETER:
            amt = b.amount_for(P, rng.choice(["exact", "contradict", "exact"]))
            vals = [int(x) if x.denominator == 1 else float(x) for x in amt]
        b.push(P, vals, "routing", form=form, want_add=rng.random() < 0.5)
    return b.case()


BIG = 2 ** 24
INT32_MAX = 2 ** 31 - 1


def big_int_shares(rng):
    defu = rng.choice([MONTH, MONTH, DAY, YEAR, WK, WD])
    var = {"vt": "int", "def": defu, "rule": "div", "end": None}
    b = Builder(rng, var, rng.choice([1, 2]), "big-int", disk=rng.random() < 0.2)
    cands = [P for P in long_periods(rng, defu) if tiled_exactly(defu, P) and 2 <= len(spec_tiles(defu, P)) <= 60]
    base = rng.choice(cands)
    T = tiles_as_periods(spec_tiles(defu, base))
    for t in subset_pattern(rng, T, rng.choice(["none", "none", "one", "two", "random"])):
        # a value set directly (one sub-period to fill): small, or above 2**24 and odd
        vals = [rng.choice([rng.randrange(0, 1000), BIG + 1 + 2 * rng.randrange(0, 2000000)]) for _ in range(b.n)]
        b.push(t, vals, "tile")
    ref = b.ref
    W = ref.walk((base[0], tuple(base[1]), base[2]))
    k = sum(1 for t in W if t not in ref.h)
    ksum = ref.known_sum(W)
    if k > 0 and all(INT32_MAX - int(x) > k * (BIG + 1) for x in ksum):
        vals = []
        for e in range(b.n):
            top = (INT32_MAX - int(ksum[e])) // k
            share = rng.choice([BIG + 1, BIG + 3, 20000001, 2 * BIG + 1, BIG + 1 + 2 * rng.randrange(0, max(1, (top - BIG - 1) // 2))])
            if share > top:
                share = BIG + 1
            vals.append(int(ksum[e]) + k * share)
        b.push(base, vals, "long")
    else:
        b.long(base, mode="exact")
    b.long(base, mode=rng.choice(["exact", "contradict"]))
    return b.case()


def long_reading(rng, i):
    """A long input, then the variable is read for every piece of a window of more than 1024 pieces around
    it, then the long period is summed, confirmed and contradicted."""
    vt, rule = rng.choice(["float", "int"]), rng.choice(["div", "dis", "div"])
    y = rng.choice([2001, 2011, 2019, 2020])
    if i % 5 == 4:
        defu, base, window = MONTH, [YEAR, [y, 1, 1], 1], [YEAR, [y - 88, 1, 1], 90]
    else:
        defu = DAY
        base = rng.choice([[YEAR, [y, 1, 1], 1], [MONTH, [y, rng.randrange(1, 13), 1], 1], [MONTH, [y, 2, 1], 3]])
        window = [YEAR, [y - rng.choice([0, 1, 2]), 1, 1], rng.choice([3, 4])]
    var = {"vt": vt, "def": defu, "rule": rule, "end": None}
    b = Builder(rng, var, 1, "long-reading")
    T = tiles_as_periods(spec_tiles(defu, base))
    for t in subset_pattern(rng, T, rng.choice(["none", "one", "two"])):
        b.push(t, b.tile_vals(), "tile", form="list")
    b.long(base, mode="exact")
    b.calc(window)
    b.long(base, mode="exact")          # everything is known: the amount equal to the sum is accepted,
    b.long(base, mode="contradict")     # another one refused
    nxt = [base[0], shift(base[1], base[2], base[0]), base[2]]
    b.long(nxt, mode="exact")
    return b.case()


def generate(rng, tier):
    scale = {"quick": 1, "escalated": 4, "thorough": 25}[tier]
    cases = []
    variants = [(vt, defu, rule) for vt in ("float", "int") for defu in (MONTH, DAY, YEAR, WK, WD)
                for rule in ("div", "dis")]
    # A. structured histories on long periods tiled exactly
    per = {MONTH: 80, DAY: 40, YEAR: 30, WK: 24, WD: 30}
    for vt, defu, rule in variants:
        var = {"vt": vt, "def": defu, "rule": rule, "end": None}
        for _ in range(per[defu] * scale):
            cases.append(structured(rng, var, "tiled"))
    # B. every subset of a small tiling
    y = rng.choice([2019, 2020])
    mon = rand_monday(rng)
    for vt in ("float", "int"):
        for rule in ("div", "dis"):
            small = [({"vt": vt, "def": YEAR, "rule": rule, "end": None}, [YEAR, [y, 1, 1], 3]),
                     ({"vt": vt, "def": MONTH, "rule": rule, "end": None}, [MONTH, [y, 11, 1], 4]),
                     ({"vt": vt, "def": WD, "rule": rule, "end": None}, [WD, mon, 5] if rule == "dis" else [WK, mon, 1]),
                     ({"vt": vt, "def": DAY, "rule": rule, "end": None}, [DAY, [y, 2, 26], 5])]
            for var, base in small:
                if len(spec_tiles(var["def"], base)) > 5 and tier == "quick" and vt == "int":
                    continue
                cases += all_subsets(rng, var, "subsets", base)
    # C. whole years of days (few: 365/366 tiles each)
    for i in range(4 * scale):
        var = {"vt": rng.choice(["float", "int"]), "def": DAY, "rule": rng.choice(["div", "dis"]), "end": None}
        cases.append(structured(rng, var, "year-of-days", big=True, pattern=rng.choice(["none", "one", "two", "random"])))
    # D. int variables with non-divisible remainders (the share is truncated: not claimed, compared)
    for _ in range(40 * scale):
        defu = rng.choice([MONTH, MONTH, YEAR, WK, WD, DAY])
        var = {"vt": "int", "def": defu, "rule": "div", "end": None}
        b = Builder(rng, var, rng.choice([1, 2]), "int-indivisible", disk=rng.random() < 0.3)
        base = long_periods(rng, defu)[0]
        T = tiles_as_periods(spec_tiles(defu, base))
        for t in subset_pattern(rng, T, rng.choice(["none", "one", "two", "random"])):
            b.push(t, b.tile_vals(), "tile")
        b.long(base, mode="indivisible")
        b.long(base, mode=rng.choice(["exact", "contradict"]))
        cases.append(b.case())
    # F. int variables whose equal share is an integer above 2**24 (exact in int32, not in binary32)
    for _ in range(36 * scale):
        cases.append(big_int_shares(rng))
    # G. the variable is read for more than 1024 periods around a long input (few: > 1000 tiles each)
    for i in range(5 * scale):
        cases.append(long_reading(rng, i))
    # E. routing, mismatches, eternity, malformed arrays, unaligned / cross-family inputs, end dates
    for _ in range(300 * scale):
        cases.append(routing(rng))
    return cases
