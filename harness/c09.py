"""C09 - tax-scale transformations preserve the amounts they are meant to preserve.

One case = one transformation of freshly built scales of the real classes of
openfisca_core.taxscales: add_tax_scale (pairs and sequences), helpers.combine_tax_scales,
inverse, multiply_thresholds / multiply_rates (inplace or not, decimals, new_name),
scale_tax_scales, to_average, to_marginal, to_average().to_marginal(), copy.

Every observation contains the structure (thresholds, rates) of the transformed scale, the
structure of the argument scale(s) after the call, and the amounts calc() gives on a vector
of bases.  The Coq model (Scale.v / ScaleOps.v through corr/Corr_C09.v) must reproduce
them: copied thresholds and representable sums/products exactly, computed rates and all
amounts within 1e-9 (relative to max(1, |value|)); the implementation's numbers are handed
to the model side as hints so that this comparison is done inside Coq.

The oracle evaluates the laws of the property on the implementation alone (naive Python
over Fractions of the floats the implementation returned).
"""
from __future__ import annotations

import itertools
import json
from fractions import Fraction as F

import numpy

from openfisca_core import taxscales
from openfisca_core.taxscales import helpers as ts_helpers

import scalelib as L
from common import Err, cbool, clist, copt, cq, cz, guarded
from scalelib import fr, enc

PROP = "C09"
COQ_HEADER = "From Verif Require Import Scale ScaleOps Corr_C09."
COQ_RUN = "Corr_C09.run"
SHARD = 300
ANCHORS = ["openfisca_core/taxscales/marginal_rate_tax_scale.py",
           "openfisca_core/taxscales/rate_tax_scale_like.py",
           "openfisca_core/taxscales/linear_average_rate_tax_scale.py",
           "openfisca_core/taxscales/helpers.py",
           "openfisca_core/taxscales/tax_scale_like.py"]
RULE = ("one transformation per case on scales of 0..6 brackets given by their add_bracket calls: add_tax_scale of "
        "pairs in every relative layout (every pair of subsets of a 4-point grid; interleaved, equal, shared, "
        "other's first threshold below self's, all below / all above, nested in one bracket, empty receiver, empty "
        "argument) and of sequences of 2..4 scales, combine_tax_scales over nodes with non-scale children and an "
        "optional initial scale, inverse (first threshold 0 and rates < 1, plus the rejected / unclaimed shapes: "
        "first threshold not 0, a rate 1, rates above 1), multiply_thresholds and multiply_rates with factors "
        "2, 1/2, 3/2, 3, 1/4, 5/4, 1, 0, negative and non-dyadic ones, decimals None/0/1/2/-1, inplace or not, "
        "new_name or not, scale_tax_scales, to_average, to_marginal of directly built average scales (with and "
        "without an infinite last threshold), to_average().to_marginal(), copy; PROGRAMS on one scale object (2..5 stages: multiply_thresholds / multiply_rates in place or "
        "not, copy, scale_tax_scales, add_bracket, add_tax_scale, and multiply_thresholds with decimals 0 / -1 on clustered "
        "thresholds so that thresholds coincide), the object being probed before the first and after every step with calc, "
        "inverse + round trip, to_average, to_average().to_marginal() and probe.add_tax_scale(object), every law checked "
        "at every stage against the bracket lists read back from the object; pairs / sequences / nodes of scales with the same "
        "number of brackets whose thresholds are large integers (2^24 .. 4e9) differing by a relative 1e-6 .. 1e-5; "
        "populations of 65537 .. 131077 bases (int64, int32, float64, float32) on which every law is evaluated for the "
        "whole vector, slices on both sides of 2^16 are asked again alone, and sampled elements go through the model; "
        "thresholds multiples of 1/4 (0 "
        "included in most scales, a few negative ones), rates multiples of 1/16; bases on every threshold of "
        "every scale involved, between them, below the first and above the last; a case is non-trivial when a "
        "non-empty scale is transformed and amounts are computed; distinct as (operation, scales, options, bases)")
TRUSTED = ["numpy (tile/outer/minimum/maximum/dot/around) and bisect are modelled by list functions in coq/model/Scale.v, covered by the correspondence only",
           "the implementation's floats are handed to the Coq side as hints; corr/Corr_C09.v renders a model number as the hint when it is within 1e-9 (relative to max(1,|model value|)) of it, so the tolerance comparison is evaluated by Coq",
           "calc() of the implementation shifts thresholds by the factor 1 + 2^-52; the correspondence runs the model with that eps, the theorems are about eps = 0"]
ASSUMPTIONS = ["OPEN finding F34 (known_findings.json, coinciding-thresholds): on a scale with two equal thresholds (produced by multiply_thresholds with decimals) add_tax_scale, inverse and to_average().to_marginal() break their laws on the unchanged tree; the oracle claims the laws there too, the failures are reported as KNOWN-FINDING when model and implementation agree, and are checked last so that they never hide another failure of the same case; the theorems assume strictly increasing thresholds",
               "programs keep every product exact in binary64 (dyadic factors, decimals 0 / -1 only) and thresholds positive after the first one",
               "binary64 rounding is not modelled: computed rates and amounts are compared within 1e-9 relative to max(1, |value|); thresholds that are copied, and sums / products that the harness checked to be representable, exactly",
               "claimed scope of the oracle: scales with non-negative thresholds (property quantifier); inverse for first threshold 0, all rates < 1, gross amounts >= 0; threshold scaling for factors >= 0 without decimals (a negative factor reverses the thresholds: compared with the model, not claimed); the average/marginal round trip for non-empty scales (an empty scale has no last rate: to_marginal raises)",
               "inputs are small dyadic rationals (|threshold| <= 1100 multiples of 1/4, rates multiples of 1/16) so that additions and the products of inverse() are exact in binary64"]

EPS = L.EPS
TOL = F(1, 10**9)


# ---- numbers ---------------------------------------------------------------------------------

def tofr(v):
    if isinstance(v, (float, numpy.floating)) and numpy.isinf(v):
        return "inf"
    return L.tofr(v)


def close(model_like: F, other: F) -> bool:
    return abs(model_like - other) <= TOL * max(1, abs(model_like), abs(other))


def num(x, ints):
    if x == "inf":
        return float("inf")
    return L.pynum(fr(x), ints)


def mk(calls, ints=False, cls=taxscales.MarginalRateTaxScale):
    s = cls()
    for t, r in calls:
        s.add_bracket(num(t, ints), num(r, ints))
    return s


def snap(s):
    return [[tofr(t) for t in s.thresholds], [tofr(r) for r in s.rates]]


def raw(s):
    """Everything the caller of a non-in-place operation can see of the argument."""
    return ([(type(t).__name__, float(t)) for t in s.thresholds],
            [(type(r).__name__, float(r)) for r in s.rates], s.name, s.option, s.unit)


def calc(s, bases):
    arr = numpy.array([float(b) for b in bases], dtype=float)
    return [L.tofr(x) for x in s.calc(arr)]


def brackets(calls):
    return L.ref_build(calls)


# ---- implementation driver -------------------------------------------------------------------

_OBS: dict = {}


def key(c):
    return json.dumps(c, sort_keys=True)


def run_impl(c):
    try:
        o = _run(c)
    except Exception as e:  # noqa: BLE001 - recorded for the hints, re-raised for main.guarded
        _OBS[key(c)] = None
        raise e
    _OBS[key(c)] = o
    return o


def _run(c):
    op = c["op"]
    ints = c.get("ints", False)
    bases = [fr(b) for b in c.get("bases", [])]
    if op == "combine":
        s1, s2 = mk(c["s1"], ints), mk(c["s2"], ints)
        before1, before2, arg0 = calc(s1, bases), calc(s2, bases), raw(s2)
        ret = s1.add_tax_scale(s2)
        return {"res": snap(s1), "args": [snap(s2)], "args_same": raw(s2) == arg0, "ret_none": ret is None,
                "amounts": calc(s1, bases), "parts": [before1, before2]}
    if op == "combine_seq":
        s = mk(c["s"], ints)
        others = [mk(o, ints) for o in c["others"]]
        parts = [calc(s, bases)] + [calc(o, bases) for o in others]
        arg0 = [raw(o) for o in others]
        for o in others:
            s.add_tax_scale(o)
        return {"res": snap(s), "args": [snap(o) for o in others], "args_same": [raw(o) for o in others] == arg0,
                "amounts": calc(s, bases), "parts": parts}
    if op == "combine_node":
        combined = None if c["combined"] is None else mk(c["combined"], ints)
        node, children = {}, []
        for k, ch in enumerate(c["node"]):
            if ch is None:
                # a child that is not a marginal-rate scale: a plain value or a scale of another class
                node[f"child{k}"] = 0.25 if k % 2 else mk([["0", "1/2"]], cls=taxscales.LinearAverageRateTaxScale)
            else:
                node[f"child{k}"] = mk(ch, ints)
                children.append(node[f"child{k}"])
        parts = ([calc(combined, bases)] if combined is not None else []) + [calc(ch, bases) for ch in children]
        arg0 = [raw(ch) for ch in children]
        res = ts_helpers.combine_tax_scales(node, combined)
        if res is None:
            return {"res": None, "parts": parts}
        return {"res": snap(res), "args": [snap(ch) for ch in children],
                "args_same": [raw(ch) for ch in children] == arg0,
                "same_object": (combined is not None and res is combined),
                "amounts": calc(res, bases), "parts": parts}
    if op == "inverse":
        s = mk(c["s"], ints)
        gross = [fr(g) for g in c["gross"]]
        taxes, arg0 = calc(s, gross), raw(s)
        inv = s.inverse()
        arr = numpy.array([float(g) for g in gross], dtype=float)
        net = arr - s.calc(arr)
        return {"res": snap(inv), "args": [snap(s)], "args_same": raw(s) == arg0, "aliased": inv is s,
                "amounts": [L.tofr(x) for x in inv.calc(net)], "taxes": taxes}
    if op in ("mul_thr", "mul_rates", "scale_ts"):
        s = mk(c["s"], ints)
        factor = fr(c["factor"])
        before, arg0 = calc(s, bases), raw(s)
        if op == "mul_thr":
            ret = s.multiply_thresholds(float(factor), decimals=c["decimals"], inplace=c["inplace"],
                                        new_name="renamed" if c["new_name"] else None)
            at = [b * factor for b in bases]
        elif op == "mul_rates":
            ret = s.multiply_rates(float(factor), inplace=c["inplace"],
                                   new_name="renamed" if c["new_name"] else None)
            at = bases
        else:
            ret = s.scale_tax_scales(float(factor))
            at = [b * factor for b in bases]
        return {"res": snap(ret), "args": [snap(s)], "args_same": raw(s) == arg0, "aliased": ret is s,
                "amounts": calc(ret, at), "before": before,
                "same_class": type(ret) is type(s)}
    if op == "to_average":
        s = mk(c["s"], ints)
        arg0 = raw(s)
        avg = s.to_average()
        return {"res": snap(avg), "args": [snap(s)], "args_same": raw(s) == arg0,
                "class": type(avg).__name__}
    if op == "to_marginal":
        a = mk(c["avg"], ints, cls=taxscales.LinearAverageRateTaxScale)
        arg0 = raw(a)
        m = a.to_marginal()
        return {"res": snap(m), "args_same": raw(a) == arg0, "class": type(m).__name__}
    if op == "avg_marg":
        s = mk(c["s"], ints)
        before, arg0 = calc(s, bases), raw(s)
        m = s.to_average().to_marginal()
        return {"res": snap(m), "args": [snap(s)], "args_same": raw(s) == arg0,
                "amounts": calc(m, bases), "before": before}
    if op == "copy":
        s = mk(c["s"], ints)
        before, arg0 = calc(s, bases), raw(s)
        cp = s.copy()
        res, amounts, aliased = snap(cp), calc(cp, bases), cp is s
        shares = cp.thresholds is s.thresholds or cp.rates is s.rates
        # altering the copy must not alter the original, and the other way round
        cp.add_bracket(12345.0, 0.5)
        cp.multiply_rates(2.0)
        orig_same = raw(s) == arg0
        cp2 = s.copy()
        cp2_0 = raw(cp2)
        s.add_bracket(54321.0, 0.25)
        return {"res": res, "args": [snap(mk(c["s"], ints))], "args_same": orig_same and not shares,
                "copy_independent": raw(cp2) == cp2_0, "aliased": aliased, "amounts": amounts, "before": before,
                "same_class": type(cp) is type(s)}
    if op == "prog":
        return run_prog(c, ints, bases)
    if op == "big":
        return run_big(c, ints)
    raise ValueError(op)


BIG_DTYPES = {"i8": numpy.int64, "i4": numpy.int32, "f8": numpy.float64, "f4": numpy.float32}


def big_bases(c):
    """The population of a 'big' case: n bases ((i * a + off) mod m) / q, as exact integers
    times 1/q (the array handed to calc has the dtype of the case)."""
    i = numpy.arange(c["n"], dtype=numpy.int64)
    return (i * c["a"] + c["off"]) % c["m"], c["q"]


def run_big(c, ints):
    """One calc call on a population of more than 2^16 bases per scale involved; the laws are
    evaluated on the whole vectors (numpy, float64) and the worst element of each law is
    reported with its exact values for the oracle."""
    num_, q = big_bases(c)
    dt = BIG_DTYPES[c["dtype"]]
    big = (num_ // q).astype(dt) if q == 1 else (num_ / q).astype(dt)
    exact = num_.astype(numpy.float64) / q
    if not numpy.array_equal(big.astype(numpy.float64), exact):
        raise RuntimeError("harness: population not representable in its dtype")
    f = fr(c["factor"])
    s1, s2 = mk(c["s1"], ints), mk(c["s2"], ints)
    arg0 = (raw(s1), raw(s2))
    t1, t2 = s1.calc(big), s2.calc(big)
    laws = {}

    def law(name, lhs, rhs, at=None):
        lhs, rhs = numpy.asarray(lhs, dtype=numpy.float64), numpy.asarray(rhs, dtype=numpy.float64)
        if lhs.shape != rhs.shape:
            laws[name] = {"shape": [list(lhs.shape), list(rhs.shape)]}
            return
        dev = numpy.abs(lhs - rhs) / numpy.maximum(1.0, numpy.maximum(numpy.abs(lhs), numpy.abs(rhs)))
        k = int(numpy.argmax(dev)) if dev.size else 0
        laws[name] = {"index": k, "base": L.tofr(exact[k]), "lhs": L.tofr(lhs[k]), "rhs": L.tofr(rhs[k]),
                      "n_off": int((dev > 1e-9).sum())}

    comb = s1.copy()
    comb.add_tax_scale(s2)
    law("combine", comb.calc(big), numpy.asarray(t1, dtype=numpy.float64) + numpy.asarray(t2, dtype=numpy.float64))
    law("scale_rates", s1.multiply_rates(float(f), inplace=False).calc(big), float(f) * numpy.asarray(t1, dtype=numpy.float64))
    scaled = (big * dt(int(f))) if f.denominator == 1 else (exact * float(f)).astype(dt)
    law("scale_thresholds", s1.multiply_thresholds(float(f), inplace=False).calc(scaled),
        float(f) * numpy.asarray(t1, dtype=numpy.float64))
    law("copy", s1.copy().calc(big), t1)
    br = brackets(c["s1"])
    if br and br[0][0] == 0 and all(r < 1 for _, r in br):
        law("inverse", s1.inverse().calc(exact - numpy.asarray(t1, dtype=numpy.float64)), exact)
    if br and all(t >= 0 for t, _ in br):
        law("average_marginal", s1.to_average().to_marginal().calc(big), t1)
    # the same scale asked base by base (slices of the population, among them both sides of 2^16)
    for k0 in c["slices"]:
        sl = slice(k0, k0 + 64)
        law(f"slice@{k0}", numpy.asarray(t1)[sl], s1.calc(big[sl]))
    sample = [int(k) for k in c["sample"]]
    return {"scale": snap(s1), "sample_bases": [L.tofr(exact[k]) for k in sample],
            "sample_amounts": [L.tofr(numpy.asarray(t1)[k]) for k in sample],
            "dtype_of_result": str(numpy.asarray(t1).dtype), "len": int(len(t1)),
            "args_same": (raw(s1), raw(s2)) == arg0, "laws": laws}


def probe(cur, bases, probe_calls, ints):
    """Everything the property speaks about, asked of the CURRENT object."""
    arg0 = raw(cur)
    out = {"state": snap(cur), "calc": calc(cur, bases)}

    def inv_():
        inv = cur.inverse()
        arr = numpy.array([float(b) for b in bases], dtype=float)
        net = arr - cur.calc(arr)
        return {"res": snap(inv), "amounts": [L.tofr(x) for x in inv.calc(net)], "aliased": inv is cur}

    def avg_():
        return snap(cur.to_average())

    def am_():
        m = cur.to_average().to_marginal()
        return {"res": snap(m), "amounts": calc(m, bases)}

    def comb_():
        acc = mk(probe_calls, ints)
        before = calc(acc, bases)
        acc.add_tax_scale(cur)
        return {"res": snap(acc), "amounts": calc(acc, bases), "acc_before": before}

    out["inverse"] = guarded(inv_)
    out["average"] = guarded(avg_)
    out["avg_marg"] = guarded(am_)
    out["combine"] = guarded(comb_)
    out["unchanged"] = raw(cur) == arg0
    return out


def run_prog(c, ints, bases):
    cur = mk(c["s"], ints)
    stages = [probe(cur, bases, c["probe"], ints)]
    steps = []
    for st in c["steps"]:
        kind = st[0]
        old, old0 = cur, raw(cur)
        at = []
        if kind == "mul_thr":
            f = fr(st[1])
            ret = cur.multiply_thresholds(float(f), decimals=st[2], inplace=st[3])
            at = [b * f for b in bases]
        elif kind == "mul_rates":
            ret = cur.multiply_rates(float(fr(st[1])), inplace=st[2])
        elif kind == "copy":
            ret = cur.copy()
        elif kind == "scale_ts":
            f = fr(st[1])
            ret = cur.scale_tax_scales(float(f))
            at = [b * f for b in bases]
        elif kind == "add_bracket":
            cur.add_bracket(num(st[1], ints), num(st[2], ints))
            ret = cur
        elif kind == "combine":
            other = mk(st[1], ints)
            other0, other_calc = raw(other), calc(other, bases)
            cur.add_tax_scale(other)
            ret = cur
        else:
            raise ValueError(kind)
        info = {"old_after": snap(old), "aliased": ret is old, "old_same": raw(old) == old0,
                "same_class": type(ret) is type(old), "amounts": calc(ret, at)}
        if kind == "combine":
            info["other_same"] = raw(other) == other0
            info["other_calc"] = other_calc
        if kind == "copy":
            info["shares"] = ret.thresholds is old.thresholds or ret.rates is old.rates
        cur = ret
        steps.append(info)
        stages.append(probe(cur, bases, c["probe"], ints))
    return {"stages": stages, "steps": steps}


# ---- Coq side ----------------------------------------------------------------------------------

def ccalls(calls):
    return L.ccalls(calls)


def cext(x):
    return "Inf" if x == "inf" else f"(Fin {cq(fr(x))})"


def hints_of(c, o):
    """The implementation's real-valued numbers, one list per field (see Corr_C09.v)."""
    if o is None or isinstance(o, Err):
        return []
    op = c["op"]
    if op in ("combine", "combine_seq", "copy"):
        return [o["amounts"]]
    if op == "combine_node":
        return [] if o["res"] is None else [o["amounts"]]
    if op == "inverse":
        return [o["res"][1], o["amounts"]]
    if op in ("mul_thr", "mul_rates", "scale_ts"):
        return [o["res"][0], o["res"][1], o["args"][0][0], o["args"][0][1], o["amounts"]]
    if op == "to_average":
        return [o["res"][1]]
    if op == "to_marginal":
        return [o["res"][1]]
    if op == "avg_marg":
        return [o["res"][1], o["amounts"]]
    if op == "big":
        return [o["sample_amounts"]]
    if op == "prog":
        h = []
        for k, stg in enumerate(o["stages"]):
            inv, avg, am, cb = stg["inverse"], stg["average"], stg["avg_marg"], stg["combine"]
            h += [stg["calc"],
                  [] if isinstance(inv, Err) else inv["res"][1],
                  [] if isinstance(inv, Err) else inv["amounts"],
                  [] if isinstance(am, Err) else am["res"][1],
                  [] if isinstance(am, Err) else am["amounts"],
                  [] if isinstance(cb, Err) else cb["amounts"],
                  [] if isinstance(avg, Err) else avg[1],
                  o["steps"][k]["amounts"] if k < len(o["steps"]) else []]
        return h
    raise ValueError(op)


def chints(h):
    return clist([clist([cq(x) for x in fld]) for fld in h])


def coq_case(c):
    k = key(c)
    if k not in _OBS:
        guarded(run_impl, c)
    h = chints(hints_of(c, _OBS.get(k)))
    op = c["op"]
    eps = cq(EPS)
    bases = L.cqs(c.get("bases", []))
    if op == "combine":
        return f"(KCombine {eps} {ccalls(c['s1'])} {ccalls(c['s2'])} {bases} {h})"
    if op == "combine_seq":
        return f"(KCombineSeq {eps} {ccalls(c['s'])} {clist([ccalls(o) for o in c['others']])} {bases} {h})"
    if op == "combine_node":
        return (f"(KCombineNode {eps} {copt(c['combined'], ccalls)} "
                f"{clist([copt(ch, ccalls) for ch in c['node']])} {bases} {h})")
    if op == "inverse":
        return f"(KInverse {eps} {ccalls(c['s'])} {L.cqs(c['gross'])} {h})"
    if op in ("mul_thr", "scale_ts"):
        factor = fr(c["factor"])
        at = clist([cq(fr(b) * factor) for b in c["bases"]])
        if op == "scale_ts":
            return f"(KScaleTS {eps} {cq(factor)} {cbool(exact_flag(c))} {ccalls(c['s'])} {at} {h})"
        return (f"(KMulThr {eps} {cq(factor)} {copt(c['decimals'], cz)} {cbool(c['inplace'])} "
                f"{cbool(c['new_name'])} {cbool(exact_flag(c))} {ccalls(c['s'])} {at} {h})")
    if op == "mul_rates":
        return (f"(KMulRates {eps} {cq(fr(c['factor']))} {cbool(c['inplace'])} {cbool(c['new_name'])} "
                f"{cbool(exact_flag(c))} {ccalls(c['s'])} {bases} {h})")
    if op == "to_average":
        return f"(KToAverage {ccalls(c['s'])} {h})"
    if op == "to_marginal":
        calls = clist([f"({cext(t)}, {cq(fr(r))})" for t, r in c["avg"]])
        return f"(KToMarginal {calls} {h})"
    if op == "avg_marg":
        return f"(KAvgMarg {eps} {ccalls(c['s'])} {bases} {h})"
    if op == "copy":
        return f"(KCopy {eps} {ccalls(c['s'])} {bases} {h})"
    if op == "big":
        num_, q = big_bases(c)
        sb = clist([cq(F(int(num_[k]), q)) for k in c["sample"]])
        return f"(KCalc {eps} {ccalls(c['s1'])} {sb} {h})"
    if op == "prog":
        return (f"(KProg {eps} {ccalls(c['s'])} {ccalls(c['probe'])} {clist([cstep(st) for st in c['steps']])} "
                f"{bases} {h})")
    raise ValueError(op)


def cstep(st):
    kind = st[0]
    if kind == "mul_thr":
        return f"(SMulThr {cq(fr(st[1]))} {copt(st[2], cz)} {cbool(st[3])})"
    if kind == "mul_rates":
        return f"(SMulRates {cq(fr(st[1]))} {cbool(st[2])})"
    if kind == "copy":
        return "SCopy"
    if kind == "scale_ts":
        return f"(SScaleTS {cq(fr(st[1]))})"
    if kind == "add_bracket":
        return f"(SAddBracket {cq(fr(st[1]))} {cq(fr(st[2]))})"
    if kind == "combine":
        return f"(SCombine {ccalls(st[1])})"
    raise ValueError(kind)


def exact_flag(c):
    """True when every product the operation computes is a binary64 number (then the
    transformed thresholds / rates are compared exactly with the model)."""
    f = fr(c["factor"])
    br = brackets(c["s"])
    if c["op"] == "mul_rates":
        return all(L.representable(r * f) for _, r in br)
    if c.get("decimals") is not None:
        return False
    return all(L.representable(t * f) for t, _ in br)


def obs_for_coq(c, o):
    if isinstance(o, Err):
        return o
    op = c["op"]
    if op == "combine":
        return [o["res"], o["args"][0], o["amounts"]]
    if op == "combine_seq":
        return [o["res"], o["args"], o["amounts"]]
    if op == "combine_node":
        return None if o["res"] is None else [o["res"], o["amounts"]]
    if op == "inverse":
        return [o["res"], o["args"][0], o["amounts"]]
    if op in ("mul_thr", "mul_rates", "scale_ts", "copy"):
        return [o["res"], o["args"][0], bool(o["aliased"]), o["amounts"]]
    if op == "to_average":
        return [o["res"], o["args"][0]]
    if op == "to_marginal":
        return o["res"]
    if op == "avg_marg":
        return [o["res"], o["args"][0], o["amounts"]]
    if op == "big":
        return [o["scale"], o["sample_amounts"]]
    if op == "prog":
        out = []
        for k, stg in enumerate(o["stages"]):
            inv, avg, am, cb = stg["inverse"], stg["average"], stg["avg_marg"], stg["combine"]
            out.append([stg["state"], stg["calc"],
                        inv if isinstance(inv, Err) else [inv["res"], inv["amounts"]],
                        avg,
                        am if isinstance(am, Err) else [am["res"], am["amounts"]],
                        cb if isinstance(cb, Err) else [cb["res"], cb["amounts"]]])
            if k < len(o["steps"]):
                sp = o["steps"][k]
                out.append([sp["old_after"], bool(sp["aliased"]), sp["amounts"]])
        return out
    raise ValueError(op)


# ---- oracle: the laws of C09 evaluated on the implementation's answers -----------------------

def nonneg(calls):
    return all(fr(t) >= 0 for t, _ in calls)


def sorted_structure(res):
    ths = res[0]
    return all(a < b for a, b in zip(ths, ths[1:])) and len(res[0]) == len(res[1])


def oracle(c, o):
    op = c["op"]
    if isinstance(o, Err):
        return err_claim(c, o)
    bases = [fr(b) for b in c.get("bases", [])]
    # none of the non-in-place operations alters the scale it was applied to
    if o.get("args_same") is False and not (op in ("mul_thr", "mul_rates") and c["inplace"]):
        return f"argument_altered: {op} altered its argument scale(s): now {o.get('args')} on {c}"
    if op in ("combine", "combine_seq", "combine_node"):
        scales = ([c["s1"], c["s2"]] if op == "combine" else [c["s"]] + c["others"] if op == "combine_seq"
                  else ([c["combined"]] if c["combined"] is not None else []) + [ch for ch in c["node"] if ch is not None])
        if op == "combine_node" and o["res"] is None:
            return None if (not c["node"] and c["combined"] is None) else f"combine: combine_tax_scales returned None on {c}"
        if not all(nonneg(s) for s in scales):
            return None                                   # negative thresholds: not claimed
        if not sorted_structure(o["res"]):
            return f"combine: the combined scale has unsorted thresholds {o['res'][0]} on {c}"
        for k, b in enumerate(bases):
            want = sum((p[k] for p in o["parts"]), F(0))
            if not close(want, o["amounts"][k]):
                return (f"combine: tax of the combined scale on base {b} is {float(o['amounts'][k])!r}, the taxes of the "
                        f"combined scales add up to {float(want)!r} ({[float(p[k]) for p in o['parts']]}) on {c}")
            # and the same with the naive definition on the structures
            naive = sum((L.def_marginal_rate(brackets(s), b) for s in scales), F(0))
            got = L.def_marginal_rate(list(zip(*o["res"])), b)
            if not close(naive, got):
                return (f"combine: the combined scale {o['res']} taxes base {b} at {float(got)!r} by definition, the "
                        f"combined scales at {float(naive)!r} on {c}")
        return None
    if op == "inverse":
        br = brackets(c["s"])
        if o["aliased"]:
            return f"argument_altered: inverse returned the scale itself on {c}"
        claimed = bool(br) and br[0][0] == 0 and all(r < 1 for _, r in br)
        if not claimed:
            return None
        for g, a in zip(c["gross"], o["amounts"]):
            g = fr(g)
            if g >= 0 and not close(g, a):
                return (f"inverse: gross {g} gives net {float(g - o['taxes'][c['gross'].index(enc(g))])!r} which the inverse "
                        f"scale {o['res']} maps to {float(a)!r} on {c}")
        return None
    if op in ("mul_thr", "mul_rates", "scale_ts"):
        f = fr(c["factor"])
        inplace = c.get("inplace", False) if op != "scale_ts" else False
        if inplace != o["aliased"]:
            return f"argument_altered: {op} inplace={inplace} returned {'self' if o['aliased'] else 'another object'} on {c}"
        if not o["same_class"]:
            return f"scale: {op} returned another class on {c}"
        if not inplace and o["args"][0] != [list(x) for x in zip(*brackets(c["s"]))] and brackets(c["s"]):
            return f"argument_altered: {op} (not in place) changed self to {o['args'][0]} on {c}"
        if op == "mul_rates":
            for b, v0, v1 in zip(bases, o["before"], o["amounts"]):
                if not close(f * v0, v1):
                    return f"scale_rates: tax on {b} was {float(v0)!r}, after multiplying the rates by {f} it is {float(v1)!r} on {c}"
            return None
        if c.get("decimals") is not None or f < 0 or not nonneg(c["s"]):
            return None
        for b, v0, v1 in zip(bases, o["before"], o["amounts"]):
            if not close(f * v0, v1):
                return (f"scale_thresholds: tax on {b} was {float(v0)!r}; with thresholds multiplied by {f} the tax on "
                        f"{f * b} is {float(v1)!r}, not {float(f * v0)!r} on {c}")
        return None
    if op == "to_average":
        if o["class"] != "LinearAverageRateTaxScale":
            return f"average: to_average returned a {o['class']}"
        return None
    if op == "to_marginal":
        if o["class"] != "MarginalRateTaxScale":
            return f"average: to_marginal returned a {o['class']}"
        return None
    if op == "avg_marg":
        if not nonneg(c["s"]):
            return None
        for b, v0, v1 in zip(bases, o["before"], o["amounts"]):
            if not close(v0, v1):
                return (f"average_marginal: base {b} is taxed {float(v0)!r} by the scale and {float(v1)!r} after "
                        f"to_average().to_marginal() = {o['res']} on {c}")
        return None
    if op == "big":
        return oracle_big(c, o)
    if op == "prog":
        return oracle_prog(c, o, bases)
    if op == "copy":
        if o["aliased"] or not o["same_class"]:
            return f"copy: copy() returned {'the scale itself' if o['aliased'] else 'another class'} on {c}"
        if not o["copy_independent"]:
            return f"copy: altering the original altered the copy on {c}"
        if o["res"] != o["args"][0]:
            return f"copy: the copy is {o['res']}, the original {o['args'][0]}"
        for b, v0, v1 in zip(bases, o["before"], o["amounts"]):
            if v0 != v1:
                return f"copy: base {b} is taxed {v0} by the scale and {v1} by its copy on {c}"
        return None
    raise ValueError(op)


def oracle_big(c, o):
    """The laws on a population of more than 2^16 bases (worst element of each law, exact
    values), and the sampled amounts against the definition."""
    if o["len"] != c["n"]:
        return f"big: calc returned {o['len']} amounts for {c['n']} bases on {c}"
    claimed = nonneg(c["s1"]) and nonneg(c["s2"])
    f = fr(c["factor"])
    names = {"combine": "combine: tax of the combined scale vs sum of the taxes",
             "scale_rates": f"scale_rates: tax after multiply_rates({f}) vs {f} x tax",
             "scale_thresholds": f"scale_thresholds: tax on {f} x base after multiply_thresholds({f}) vs {f} x tax",
             "copy": "copy: tax by the copy vs tax by the scale",
             "inverse": "inverse: inverse().calc(net) vs gross",
             "average_marginal": "average_marginal: tax after to_average().to_marginal() vs tax"}
    for name, w in o["laws"].items():
        if name in ("combine", "average_marginal", "scale_thresholds") and not claimed:
            continue
        label = names.get(name, f"vector: calc of the whole population vs calc of the slice {name}")
        if "shape" in w:
            return f"{label}: shapes {w['shape']} on {c}"
        if not close(w["rhs"], w["lhs"]):
            return (f"{label}: {float(w['lhs'])!r} vs {float(w['rhs'])!r} for base {w['base']} (element {w['index']} of "
                    f"{c['n']} {c['dtype']} bases; {w['n_off']} elements differ) on {c}")
    br = brackets(c["s1"])
    for b, v in zip(o["sample_bases"], o["sample_amounts"]):
        e = L.def_marginal_rate(br, b)
        if not close(e, v):
            return f"calc: base {b} in a population of {c['n']} {c['dtype']} bases is taxed {float(v)!r}, the brackets give {float(e)!r} on {c}"
    return None


def strictly_increasing(state):
    ths = state[0]
    return all(a < b for a, b in zip(ths, ths[1:]))


def oracle_prog(c, o, bases):
    """Every law, after every step, on the object as it is then (its bracket lists are read
    back from the object).  Two passes, so that a failure of the open finding F34 (inverse /
    average-marginal / add_tax_scale on a scale with coinciding thresholds) never hides
    another failure of the same case: pass 1 everything else, pass 2 those three laws on
    states with coinciding thresholds."""
    for f34 in (False, True):
        msg = oracle_prog_pass(c, o, bases, f34)
        if msg:
            return msg
    return None


F34_TAG = "[coinciding thresholds]"


def oracle_prog_pass(c, o, bases, f34):
    stages, steps = o["stages"], o["steps"]
    probe_br = brackets(c["probe"])
    for k, stg in enumerate(stages):
        where = f"after step {k} of {c['steps']}" if k else "before the first step"
        st = stg["state"]
        br = list(zip(*st)) if st[0] else []
        strict = strictly_increasing(st)
        nn = all(t >= 0 for t in st[0])
        tag = "" if strict else " " + F34_TAG
        if not f34:
            if not stg["unchanged"]:
                return f"argument_altered: asking calc/inverse/to_average/add_tax_scale(arg) altered the scale {where} on {c}"
            # calc is the definition on the current bracket lists
            for b, v in zip(bases, stg["calc"]):
                e = L.def_marginal_rate(br, b)
                if not close(e, v):
                    return f"calc: base {b} is taxed {float(v)!r}, the brackets {st} give {float(e)!r} {where} on {c}"
        if f34 != strict:              # pass 1: strictly increasing states; pass 2: the others
            inv = stg["inverse"]
            if br and br[0][0] == 0 and all(r < 1 for _, r in br):
                if isinstance(inv, Err):
                    return f"inverse: raised {inv.kind} ({inv.msg[:60]}) on the scale {st}{tag} {where} on {c}"
                if inv["aliased"]:
                    return f"argument_altered: inverse returned the scale itself {where} on {c}"
                for g, a in zip(bases, inv["amounts"]):
                    if g >= 0 and not close(g, a):
                        return (f"inverse: the scale is {st}{tag} {where}; gross {g} has net {float(g - L.def_marginal_rate(br, g))!r}, "
                                f"which inverse() = {inv['res']} maps to {float(a)!r} on {c}")
            am = stg["avg_marg"]
            if nn and br:
                if isinstance(am, Err):
                    return f"average_marginal: raised {am.kind} ({am.msg[:60]}) on the scale {st}{tag} {where} on {c}"
                for b, v0, v1 in zip(bases, stg["calc"], am["amounts"]):
                    if not close(v0, v1):
                        return (f"average_marginal: the scale {st}{tag} taxes {b} at {float(v0)!r}, to_average().to_marginal() = "
                                f"{am['res']} at {float(v1)!r} {where} on {c}")
            cb = stg["combine"]
            if nn:
                if isinstance(cb, Err):
                    return f"combine: raised {cb.kind} ({cb.msg[:60]}) adding the scale {st}{tag} {where} on {c}"
                for b, v0, a0, v1 in zip(bases, stg["calc"], cb["acc_before"], cb["amounts"]):
                    if not close(v0 + a0, v1):
                        return (f"combine: {probe_br} + the scale {st}{tag} taxes {b} at {float(v1)!r}, the two scales at "
                                f"{float(a0)!r} + {float(v0)!r} {where} on {c}")
        if k == 0:
            continue
        # the law of the step that led here
        step, sp, prev = c["steps"][k - 1], steps[k - 1], stages[k - 1]
        kind = step[0]
        if kind == "combine":
            pstrict = strictly_increasing(prev["state"])
            if f34 != pstrict and nonneg(step[1]) and all(t >= 0 for t in prev["state"][0]):
                ptag = "" if pstrict else " " + F34_TAG
                for b, v0, v2, v1 in zip(bases, prev["calc"], sp["other_calc"], stg["calc"]):
                    if not close(v0 + v2, v1):
                        return (f"combine: {prev['state']}{ptag} + {brackets(step[1])} taxes {b} at {float(v1)!r}, the two scales at "
                                f"{float(v0)!r} + {float(v2)!r} on {c}")
        if f34:
            continue
        inplace = (kind in ("add_bracket", "combine") or (kind == "mul_thr" and step[3])
                   or (kind == "mul_rates" and step[2]))
        if sp["aliased"] != inplace:
            return f"argument_altered: step {step} returned {'self' if sp['aliased'] else 'another object'} on {c}"
        if not sp["same_class"]:
            return f"scale: step {step} returned another class on {c}"
        if not inplace and (not sp["old_same"] or sp["old_after"] != prev["state"]):
            return f"argument_altered: step {step} (not in place) changed the scale it was applied to: {sp['old_after']} on {c}"
        if kind == "mul_rates":
            f = fr(step[1])
            for b, v0, v1 in zip(bases, prev["calc"], stg["calc"]):
                if not close(f * v0, v1):
                    return (f"scale_rates: {prev['state']} taxed {b} at {float(v0)!r}; after multiply_rates({f}, inplace={step[2]}) "
                            f"the scale is {st} and taxes it at {float(v1)!r} on {c}")
        elif kind in ("mul_thr", "scale_ts"):
            f = fr(step[1])
            if (kind == "scale_ts" or step[2] is None) and f >= 0 and all(t >= 0 for t in prev["state"][0]):
                for b, v0, v1 in zip(bases, prev["calc"], sp["amounts"]):
                    if not close(f * v0, v1):
                        return (f"scale_thresholds: {prev['state']} taxed {b} at {float(v0)!r}; with thresholds times {f} the scale "
                                f"{st} taxes {f * b} at {float(v1)!r} on {c}")
        elif kind == "copy":
            if sp["shares"] or st != prev["state"] or stg["calc"] != prev["calc"]:
                return f"copy: the copy {st} of {prev['state']} shares lists or taxes differently on {c}"
        elif kind == "combine":
            if not sp["other_same"]:
                return f"argument_altered: add_tax_scale altered its argument on {c}"
    return None


def known(c, o, msg):
    """Open finding F34 (known_findings.json, signature coinciding-thresholds): the failing law
    is add_tax_scale / inverse / average-marginal AND the scale it was evaluated on has two
    equal thresholds (read back from the implementation's object)."""
    if c.get("op") != "prog" or isinstance(o, Err):
        return None
    if msg.split(":")[0] not in ("combine", "inverse", "average_marginal") or F34_TAG not in msg:
        return None
    if any(not strictly_increasing(stg["state"]) and stg["state"][0] == sorted(stg["state"][0])
           for stg in o["stages"]):
        return "coinciding-thresholds"
    return None


def err_claim(c, o):
    """An exception where the property promises a value."""
    op = c["op"]
    if op == "prog":
        return f"prog: raised {o.kind} ({o.msg[:80]}) on {c}"
    if op == "big":
        return f"big: raised {o.kind} ({o.msg[:80]}) on {c}"
    if op in ("combine", "combine_seq", "combine_node", "copy", "scale_ts", "to_average"):
        scs = [c.get("s"), c.get("s1"), c.get("s2"), c.get("combined")] + list(c.get("others", [])) + list(c.get("node", []))
        if all(nonneg(s) for s in scs if s is not None):
            return f"{op}: raised {o.kind} ({o.msg[:80]}) on {c}"
        return None
    if op in ("mul_thr", "mul_rates"):
        if c["inplace"] and c["new_name"]:
            return None                                  # documented assertion
        return f"{op}: raised {o.kind} ({o.msg[:80]}) on {c}"
    if op == "inverse":
        br = brackets(c["s"])
        if br and br[0][0] == 0 and all(r < 1 for _, r in br):
            return f"inverse: raised {o.kind} ({o.msg[:80]}) on {c}"
        return None
    if op == "avg_marg":
        if brackets(c["s"]) and nonneg(c["s"]):
            return f"average_marginal: raised {o.kind} ({o.msg[:80]}) on {c}"
        return None
    return None


def nontrivial(c, o):
    if isinstance(o, Err):
        return False
    op = c["op"]
    if op == "big":
        return bool(c["s1"])
    if op == "to_marginal":
        return len(c["avg"]) >= 2
    if op == "to_average":
        return len(c["s"]) >= 1
    main_scale = c.get("s") or c.get("s2") or [ch for ch in c.get("node", []) if ch]
    return bool(main_scale) and bool(c.get("bases") or c.get("gross"))


def classify(c, o):
    op = c["op"]
    tag = op
    if op == "combine":
        tag += ":" + c.get("layout", "?")
    elif op in ("mul_thr", "mul_rates"):
        tag += ":inplace" if c["inplace"] else ":new"
        if c.get("decimals") is not None:
            tag += ":decimals"
        f = fr(c["factor"])
        tag += ":f<0" if f < 0 else ":f=0" if f == 0 else ""
    elif op == "inverse":
        br = brackets(c["s"])
        tag += ":valid" if br and br[0][0] == 0 and all(r < 1 for _, r in br) else ":unclaimed"
    elif op == "big":
        tag += ":" + c["dtype"]
    elif op == "prog":
        tag += ":" + ">".join(st[0] + ("!" if st[0] in ("mul_thr", "mul_rates") and st[-1] else "") for st in c["steps"])
        if not isinstance(o, Err) and any(not strictly_increasing(stg["state"]) for stg in o["stages"]):
            tag += ":coinciding"
    elif op in ("avg_marg", "to_average"):
        br = brackets(c["s"])
        tag += ":empty" if not br else ":t0=0" if br[0][0] == 0 else ":t0>0" if br[0][0] > 0 else ":t0<0"
    if isinstance(o, Err):
        tag += ":" + o.kind
    return tag


# ---- generation ----------------------------------------------------------------------------------

RATES = [F(k, 16) for k in range(0, 16)]
RATES_W = [F(-1, 4), F(-1, 2), F(1), F(5, 4), F(2), F(3, 2)]
FACTORS = [F(2), F(1, 2), F(3, 2), F(3), F(1, 4), F(5, 4), F(1), F(0), F(-1), F(-1, 2),
           F(float(0.1)), F(float(1.07)), F(7, 8)]


def rate(rng, wild=0.0):
    return rng.choice(RATES_W) if rng.random() < wild else rng.choice(RATES)


def gen_thresholds(rng, n, zero=0.6, neg=0.0):
    if n == 0:
        return []
    style = rng.random()
    if style < 0.35:
        pool = [F(x) for x in list(range(1, 41)) + [100, 200, 1000]]
    else:
        pool = [F(k, 4) for k in range(1, 4 * 64)]
    out = set(rng.sample(pool, n))
    if rng.random() < zero:
        out.add(F(0))
    if rng.random() < neg:
        out.add(-rng.choice(pool[:20]))
    out = sorted(out)
    while len(out) > n:
        out.pop(rng.randrange(1, len(out)) if out[0] <= 0 and rng.random() < 0.8 else rng.randrange(len(out)))
    return out


def as_calls(rng, ths, wild=0.0, shuffle=0.15):
    calls = [[enc(t), enc(rate(rng, wild))] for t in ths]
    if rng.random() < shuffle:
        rng.shuffle(calls)
    return calls


def gen_scale(rng, nmax=6, nmin=1, zero=0.6, neg=0.0, wild=0.0):
    n = rng.randint(nmin, nmax)
    return as_calls(rng, gen_thresholds(rng, n, zero, neg), wild)


def bases_for(rng, scales, nmax=12, extra=()):
    ths = sorted({fr(t) for s in scales for t, _ in s})
    cand = list(ths)
    cand += [(a + b) / 2 for a, b in zip(ths, ths[1:])]
    if ths:
        cand += [ths[0] - 1, ths[0] - F(1, 4), ths[-1] + 10, ths[-1] * 2 + 1]
    cand += [F(0), F(rng.randrange(0, 800), 4)] + list(extra)
    seen, out = set(), []
    for x in cand:
        if x not in seen and L.representable(x):
            seen.add(x)
            out.append(x)
    if len(out) > nmax:
        on = [x for x in out if x in ths]
        rest = [x for x in out if x not in ths]
        rng.shuffle(on)
        rng.shuffle(rest)
        keep = max(nmax // 2, nmax - len(rest))
        out = on[:keep] + rest[:nmax - min(len(on), keep)]
    rng.shuffle(out)
    return [enc(b) for b in out]


LAYOUTS = ["interleaved", "equal", "shared", "other_first_below", "all_below", "all_above", "nested",
           "empty_self", "empty_other", "both_zero", "single_single"]


def gen_pair(rng, layout):
    n1, n2 = rng.randint(1, 6), rng.randint(1, 6)
    pool = gen_thresholds(rng, min(n1 + n2 + 2, 14), zero=0.7)
    rng2 = rng
    if layout == "interleaved":
        t1 = sorted(rng2.sample(pool, min(n1, len(pool))))
        t2 = sorted(rng2.sample(pool, min(n2, len(pool))))
    elif layout == "equal":
        t1 = sorted(rng2.sample(pool, min(n1, len(pool))))
        t2 = list(t1)
    elif layout == "shared":
        t1 = sorted(rng2.sample(pool, min(n1, len(pool))))
        t2 = sorted(set(rng2.sample(t1, rng2.randint(1, len(t1))) + rng2.sample(pool, min(2, len(pool)))))
    elif layout == "other_first_below":
        t1 = sorted(rng2.sample(pool[1:], min(n1, len(pool) - 1)))
        lower = [p for p in pool if p < t1[0]]
        t2 = sorted({rng2.choice(lower)} | set(rng2.sample(pool, min(n2 - 1, len(pool)))))
    elif layout == "all_below":
        k = rng2.randint(1, len(pool) - 1)
        t2, t1 = pool[:k][-n2:], pool[k:][:n1]
    elif layout == "all_above":
        k = rng2.randint(1, len(pool) - 1)
        t1, t2 = pool[:k][-n1:], pool[k:][:n2]
    elif layout == "nested":
        t1 = sorted(rng2.sample(pool, min(max(n1, 2), len(pool))))
        k = rng2.randrange(len(t1))
        lo = t1[k]
        hi = t1[k + 1] if k + 1 < len(t1) else lo + 16
        inner = sorted({lo + (hi - lo) * F(j, 8) for j in rng2.sample(range(1, 8), min(n2, 3))})
        t2 = inner
    elif layout == "empty_self":
        t1, t2 = [], sorted(rng2.sample(pool, min(n2, len(pool))))
    elif layout == "empty_other":
        t1, t2 = sorted(rng2.sample(pool, min(n1, len(pool)))), []
    elif layout == "both_zero":
        t1 = sorted({F(0)} | set(rng2.sample(pool, min(n1 - 1, len(pool)))))
        t2 = sorted({F(0)} | set(rng2.sample(pool, min(n2 - 1, len(pool)))))
    else:
        t1, t2 = [rng2.choice(pool)], [rng2.choice(pool)]
    return t1, t2


def close_large_thresholds(rng, n):
    """n large integer thresholds and n companions that differ from them by a relative
    1e-6 .. 1e-5 (never equal), both increasing; optionally a common leading 0."""
    t1, t2 = [], []
    lo = rng.choice([2**24, 10**7, 10**8, 411_360_000 // 2, 2**29])
    for _ in range(n):
        a = lo + rng.randrange(0, lo)
        rel = F(rng.randrange(10, 100), 10**7)                 # 1e-6 .. 1e-5
        d = max(1, int(a * rel))
        b = a + d if rng.random() < 0.5 else a - d
        t1.append(F(a))
        t2.append(F(b))
        lo = 2 * max(a, b)
    if rng.random() < 0.5:
        t1, t2 = [F(0)] + t1, [F(0)] + t2
    return t1, t2


def close_large_pair(rng):
    t1, t2 = close_large_thresholds(rng, rng.randint(1, 3))
    if rng.random() < 0.3:                                     # some thresholds really shared
        k = rng.randrange(len(t1))
        t2[k] = t1[k]
        if t1 == t2:
            t2[-1] = t2[-1] + max(1, int(t2[-1] * F(3, 10**6)))
    s1, s2 = as_calls(rng, t1, shuffle=0), as_calls(rng, t2, shuffle=0)
    ths = sorted(set(t1 + t2))
    cand = list(ths) + [(a + b) / 2 for a, b in zip(ths, ths[1:])] + [ths[-1] + 1000, ths[-1] * 2, F(0), ths[0] - 1]
    seen, bs = set(), []
    for x in cand:
        if x not in seen and L.representable(x):
            seen.add(x)
            bs.append(x)
    rng.shuffle(bs)
    return s1, s2, [enc(b) for b in bs[:14]]


def gen_big(rng, cases, tier):
    """populations of more than 2^16 bases, integer- and float-typed"""
    for dtype in (["i8", "f8", "i4", "f4"] if tier == "quick" else ["i8", "f8", "i4", "f4"] * 3):
        s1 = as_calls(rng, gen_thresholds(rng, rng.randint(2, 5), zero=1.0), shuffle=0)
        s2 = gen_scale(rng, 4)
        n = rng.choice([70001, 2**16 + 1, 2**17 + 5, 131072, 100003])
        q = 1 if dtype in ("i8", "i4") else 4
        m = rng.choice([997, 4001, 1201]) * q
        a = rng.choice([7, 13, 101, 331])
        sample = sorted(k for k in {0, 1, 2**16 - 1, 2**16, 2**16 + 1, n - 1} | {rng.randrange(n) for _ in range(8)} if k < n)
        slices = sorted({0, 2**16 - 32, 2**16, n - 64, rng.randrange(0, n - 64)})
        cases.append({"op": "big", "s1": s1, "s2": s2, "factor": enc(rng.choice([F(2), F(3), F(2)])), "ints": rng.random() < 0.3,
                      "n": n, "dtype": dtype, "a": a, "off": rng.randrange(0, 50), "m": m, "q": q,
                      "sample": sample, "slices": slices})


def gen_combine(rng, cases, n_random, grid):
    # every relative layout of two scales over a 4-point grid (and 5-point in larger tiers)
    pts = [F(0), F(2), F(5), F(9), F(12)][:grid]
    subsets = [list(cmb) for k in range(0, len(pts) + 1) for cmb in itertools.combinations(pts, k)]
    for a in subsets:
        for b in subsets:
            s1, s2 = as_calls(rng, a, shuffle=0), as_calls(rng, b, shuffle=0)
            cases.append({"op": "combine", "layout": "grid", "s1": s1, "s2": s2, "ints": rng.random() < 0.3,
                          "bases": bases_for(rng, [s1, s2], nmax=9)})
    for i in range(n_random):
        layout = LAYOUTS[i % len(LAYOUTS)]
        t1, t2 = gen_pair(rng, layout)
        wild = 0.3 if rng.random() < 0.2 else 0.0
        s1, s2 = as_calls(rng, t1, wild), as_calls(rng, t2, wild)
        cases.append({"op": "combine", "layout": layout, "s1": s1, "s2": s2, "ints": rng.random() < 0.3,
                      "bases": bases_for(rng, [s1, s2])})
    # large thresholds that are close (relative 1e-6 .. 1e-5) but different, same number of brackets
    for i in range(max(12, n_random // 12)):
        s1, s2, bs = close_large_pair(rng)
        cases.append({"op": "combine", "layout": "close_large", "s1": s1, "s2": s2, "ints": i % 2 == 0, "bases": bs})
    # negative thresholds (a high threshold equal to 0 is "falsy"): model vs implementation only
    for _ in range(max(6, n_random // 25)):
        s1, s2 = gen_scale(rng, 4, neg=0.7), gen_scale(rng, 4, neg=0.7)
        cases.append({"op": "combine", "layout": "negative", "s1": s1, "s2": s2, "ints": False,
                      "bases": bases_for(rng, [s1, s2])})


def generate(rng, tier):
    scale_n = {"quick": 1, "escalated": 3, "thorough": 12}[tier]
    cases = []
    gen_combine(rng, cases, 330 * scale_n, 4 if tier == "quick" else 5)
    for _ in range(200 * scale_n):
        s = gen_scale(rng, 5, nmin=0)
        others = [gen_scale(rng, 5, nmin=0 if rng.random() < 0.1 else 1) for _ in range(rng.randint(2, 4))]
        cases.append({"op": "combine_seq", "s": s, "others": others, "ints": rng.random() < 0.3,
                      "bases": bases_for(rng, [s] + others)})
    for _ in range(200 * scale_n):
        node = [None if rng.random() < 0.2 else gen_scale(rng, 5, zero=0.4) for _ in range(rng.randint(0, 4))]
        combined = gen_scale(rng, 4) if rng.random() < 0.4 else None
        cases.append({"op": "combine_node", "combined": combined, "node": node, "ints": rng.random() < 0.3,
                      "bases": bases_for(rng, [ch for ch in node if ch] + ([combined] if combined else []))})
    for i in range(300 * scale_n):
        kind = i % 10
        if kind < 7:                                        # the claimed shape
            s = as_calls(rng, gen_thresholds(rng, rng.randint(1, 6), zero=1.0), wild=0.0, shuffle=0.1)
            if rng.random() < 0.25:                         # negative rates are rates below one too
                s = [[t, enc(rng.choice([F(-1, 4), F(-1, 2), F(-1)]))] if rng.random() < 0.4 else [t, r] for t, r in s]
        elif kind == 7:
            s = gen_scale(rng, 5, zero=0.0)                 # first threshold not 0: unbound local
        elif kind == 8:
            s = as_calls(rng, gen_thresholds(rng, rng.randint(1, 5), zero=1.0), wild=0.5)   # rate 1 / above 1
        else:
            s = gen_scale(rng, 5, nmin=0, neg=0.5, wild=0.2)
        gross = bases_for(rng, [s], nmax=12, extra=[F(rng.randrange(0, 4000), 4)])
        cases.append({"op": "inverse", "s": s, "gross": gross, "ints": rng.random() < 0.3})
    for i in range(520 * scale_n):
        s = gen_scale(rng, 6, nmin=0 if rng.random() < 0.05 else 1, neg=0.1, wild=0.1)
        f = rng.choice(FACTORS)
        op = ["mul_thr", "mul_thr", "mul_rates", "mul_rates", "scale_ts"][i % 5]
        c = {"op": op, "s": s, "factor": enc(f), "ints": rng.random() < 0.3}
        extra = []
        if op != "mul_rates" and f > 0:
            extra = [b for t, _ in brackets(s) for b in (t,) if L.representable(b * f)]
        c["bases"] = bases_for(rng, [s], extra=extra)
        if op != "scale_ts":
            c["inplace"] = rng.random() < 0.5
            c["new_name"] = rng.random() < 0.25
        if op == "mul_thr":
            c["decimals"] = rng.choice([0, 1, 2, -1]) if rng.random() < 0.25 else None
            if c["decimals"] is not None and not all(L.representable(t * f) for t, _ in brackets(s)):
                # a product that is rounded in binary64 could fall on the other side of a half: the
                # decimals option is only exercised where threshold * factor is exact
                c["decimals"] = None
        cases.append(c)
    for _ in range(150 * scale_n):
        s = gen_scale(rng, 6, nmin=0 if rng.random() < 0.08 else 1, zero=0.5, neg=0.15)
        cases.append({"op": "to_average", "s": s, "ints": rng.random() < 0.3})
    for _ in range(150 * scale_n):
        n = rng.randint(0, 5)
        ths = gen_thresholds(rng, n, zero=0.8, neg=0.1)
        avg = [[enc(t), enc(rng.choice(RATES))] for t in ths]
        if rng.random() < 0.6:
            avg.append(["inf", enc(rng.choice(RATES))])
        if rng.random() < 0.1:
            rng.shuffle(avg)
        cases.append({"op": "to_marginal", "avg": avg, "ints": rng.random() < 0.3})
    for _ in range(300 * scale_n):
        n = rng.randint(1, 6)
        ths = sorted(set(rng.sample([F(k, 4) for k in range(1, 4 * 256)], n)))
        if rng.random() < 0.6:
            ths = [F(0)] + ths[1:] if len(ths) > 1 else [F(0)]
        s = as_calls(rng, ths, wild=0.1)
        if rng.random() < 0.05:
            s = gen_scale(rng, 4, nmin=0, neg=0.6)
        cases.append({"op": "avg_marg", "s": s, "ints": rng.random() < 0.3, "bases": bases_for(rng, [s])})
    gen_programs(rng, cases, 320 * scale_n)
    gen_big(rng, cases, tier)
    # sequences / nodes of scales with close large thresholds (the receiver has brackets already)
    for _ in range(8 * scale_n):
        t1, t2 = close_large_thresholds(rng, rng.randint(1, 3))
        scs = [as_calls(rng, t, shuffle=0) for t in (t1, t2, t1 if rng.random() < 0.5 else t2)]
        rng.shuffle(scs)
        ths = sorted(set(t1 + t2))
        bs = [enc(b) for b in ths + [(x + y) / 2 for x, y in zip(ths, ths[1:])] + [ths[-1] * 2] if L.representable(b)][:12]
        if rng.random() < 0.5:
            cases.append({"op": "combine_seq", "s": scs[0], "others": scs[1:], "ints": rng.random() < 0.5, "bases": bs})
        else:
            cases.append({"op": "combine_node", "combined": None, "node": scs, "ints": rng.random() < 0.5, "bases": bs})
    for _ in range(100 * scale_n):
        s = gen_scale(rng, 6, nmin=0 if rng.random() < 0.1 else 1, neg=0.1, wild=0.1)
        cases.append({"op": "copy", "s": s, "ints": rng.random() < 0.3, "bases": bases_for(rng, [s])})
    # the program cases are by far the largest terms: spread them over the shards
    rng.shuffle(cases)
    return cases


# ---- programs: one scale object, transformed step by step, probed after every step -----------------

PROG_F = [F(2), F(1, 2), F(3, 2), F(3), F(1, 4), F(5, 4), F(1)]
STEP_KINDS = ["mul_thr!", "mul_thr", "mul_rates!", "mul_rates", "copy", "scale_ts", "add_bracket", "combine"]


def gen_step(rng, kind):
    if kind.startswith("mul_thr"):
        return ["mul_thr", enc(rng.choice(PROG_F)), None, kind.endswith("!")]
    if kind.startswith("mul_rates"):
        return ["mul_rates", enc(rng.choice([F(1, 2), F(1, 4), F(3, 2), F(2), F(3, 4), F(-1)])), kind.endswith("!")]
    if kind == "copy":
        return ["copy"]
    if kind == "scale_ts":
        return ["scale_ts", enc(rng.choice(PROG_F))]
    if kind == "add_bracket":
        return ["add_bracket", enc(F(rng.randrange(1, 400), 4)), enc(rng.choice(RATES))]
    return ["combine", gen_scale(rng, 3)]


def rounding_step(rng):
    """multiply_thresholds with decimals 0 / -1: the way coinciding thresholds arise."""
    d = rng.choice([0, 0, 0, -1])
    f = rng.choice([F(1), F(1, 2), F(1, 4), F(1, 8)]) if d == 0 else rng.choice([F(1), F(1, 2), F(2)])
    return ["mul_thr", enc(f), d, rng.random() < 0.6]


def prog_thresholds(c):
    """Thresholds of the current object after every step (Fractions; the rates are not needed):
    used to keep programs inside what the model covers."""
    ths = sorted(t for t, _ in brackets(c["s"]))
    out = [list(ths)]
    for st in c["steps"]:
        if st[0] in ("mul_thr", "scale_ts"):
            f = fr(st[1])
            d = st[2] if st[0] == "mul_thr" else None
            ths = [t * f if d is None else L.around(d, t * f) for t in ths]
        elif st[0] == "add_bracket":
            if fr(st[1]) not in ths:
                ths = sorted(ths + [fr(st[1])])
        elif st[0] == "combine":
            ths = sorted(ths + [t for t in {fr(t) for t, _ in st[1]} if t not in ths])
        out.append(list(ths))
    return out


def prog_ok(c):
    """Every product is a binary64 number, thresholds stay in non-decreasing order, and 0 occurs
    at most as the first threshold (a later zero threshold makes `i / threshold` depend on
    whether the number is a Python or a numpy float)."""
    for st, ths in zip([None] + c["steps"], prog_thresholds(c)):
        if any(not L.representable(t) or abs(t) > 2**20 for t in ths):
            return False
        if any(t <= 0 for t in ths[1:]) or (ths and ths[0] < 0):
            return False
    return True


def has_coinciding(c):
    return any(len(set(ths)) < len(ths) for ths in prog_thresholds(c))


def clustered_scale(rng):
    """a scale some of whose thresholds are close enough to coincide after rounding"""
    n = rng.randint(2, 4)
    anchors = sorted(rng.sample(range(2, 120), n))
    ths = set()
    for a in anchors:
        ths.add(F(a))
        if rng.random() < 0.6:
            ths.add(F(a) + rng.choice([F(1, 4), F(1, 2), F(1), F(3, 4), F(2), F(3)]))
    if rng.random() < 0.8:
        ths.add(F(0))
    return as_calls(rng, sorted(ths)[:6], shuffle=0.1)


def gen_programs(rng, cases, n):
    made = 0
    tries = 0
    while made < n and tries < 40 * n:
        tries += 1
        kind = made % 4
        if kind < 2:
            # coinciding thresholds through rounding, then every transformation in turn
            s = clustered_scale(rng)
            steps = [rounding_step(rng), gen_step(rng, STEP_KINDS[(made // 4) % len(STEP_KINDS)])]
            steps += [gen_step(rng, rng.choice(STEP_KINDS)) for _ in range(rng.randint(0, 2))]
        elif kind == 2:
            # strictly increasing thresholds throughout: every law is claimed after every step
            s = as_calls(rng, gen_thresholds(rng, rng.randint(1, 5), zero=0.85), shuffle=0.1)
            steps = [gen_step(rng, STEP_KINDS[(made // 4) % len(STEP_KINDS)])]
            steps += [gen_step(rng, rng.choice(STEP_KINDS)) for _ in range(rng.randint(1, 3))]
        else:
            s = gen_scale(rng, 5, nmin=0 if rng.random() < 0.1 else 1, zero=0.7)
            steps = [gen_step(rng, rng.choice(STEP_KINDS)) if rng.random() < 0.8 else rounding_step(rng)
                     for _ in range(rng.randint(1, 4))]
        c = {"op": "prog", "s": s, "probe": gen_scale(rng, 3, nmin=0 if rng.random() < 0.15 else 1),
             "steps": steps, "ints": rng.random() < 0.3}
        if not prog_ok(c):
            continue
        if kind < 2 and not has_coinciding(c):
            continue
        # bases: on and around the thresholds of every state
        ths = sorted({t for state in prog_thresholds(c) for t in state})
        fake = [[enc(t), "0"] for t in ths]
        c["bases"] = bases_for(rng, [fake], nmax=6)
        cases.append(c)
        made += 1


def shrink(c, still_fails):
    """Drop bases / gross amounts, then brackets, while the oracle still fails."""
    cur = json.loads(json.dumps(c))

    def genuine(cc):
        """fails with something else than the open finding F34"""
        oo = guarded(run_impl, cc)
        m = oracle(cc, oo)
        return bool(m) and known(cc, oo, m) is None

    keep_genuine = genuine(cur)          # do not shrink a new failure into the known one
    changed = True
    while changed:
        changed = False
        for fld in ("steps", "bases", "gross", "s", "s1", "s2", "probe"):
            k = 0
            while isinstance(cur.get(fld), list) and k < len(cur[fld]) and len(cur[fld]) > (1 if fld in ("bases", "gross") else 0):
                c2 = dict(cur)
                c2[fld] = cur[fld][:k] + cur[fld][k + 1:]
                if c2.get("op") == "prog" and not prog_ok(c2):
                    k += 1
                    continue
                if still_fails(c2) and (not keep_genuine or genuine(c2)):
                    cur = c2
                    changed = True
                else:
                    k += 1
    return cur if cur != c else None
