"""C17 - tracing and storage settings never change results; the evaluation stack is empty after
every top-level request; the recorded trace lists, for each calculated variable, exactly the
variable-at-period calculations its formula performed, with the values returned.

A case is one rule system + population + request sequence run under the plain configuration
and under several others (trace; disk store with / without priority variables;
variables_to_drop; cache blacklist with / without opt_out_cache; combinations).

Independent record of what the formulas did (harness side only, nothing in /repo):
  * `rules.ev` is wrapped: every evaluation of a ["dep", ...] term of a compiled formula notes the
    variable, transformed period, option and what `population(...)` returned or raised;
  * `simulation.calculate` of the simulation under test is wrapped (instance attribute): every
    call notes name, period, result / failure, nested by Python's own call nesting.
The tracer's tree (tracers/full_tracer.py: a cursor with parent pointers) is compared with
that record.
"""
from __future__ import annotations

import json
import shutil
import warnings

import numpy

from openfisca_core import periods

import rules
from common import Err, cbool, clist, errkind

PROP = "C17"
COQ_HEADER = "From Verif Require Import Np Group Param Engine EngineTrace CorrEng Corr_C17."
COQ_RUN = "Corr_C17.run"
SHARD = 20
ANCHORS = ["openfisca_core/simulations/simulation.py", "openfisca_core/holders/holder.py",
           "openfisca_core/data_storage/on_disk_storage.py", "openfisca_core/data_storage/in_memory_storage.py",
           "openfisca_core/tracers/full_tracer.py", "openfisca_core/tracers/simple_tracer.py",
           "openfisca_core/tracers/flat_trace.py", "openfisca_core/tracers/trace_node.py",
           "openfisca_core/experimental/_memory_config.py", "openfisca_core/populations/_core_population.py"]
RULE = ("random rule systems of the engine generator (harness/rules.py: int/float/bool variables, every definition "
        "period, dated formulas, end dates, parameters, person/group, ADD/DIVIDE dependencies, malformed dependencies, "
        "raising formulas), each run under the plain configuration and 5 others drawn in rotation from {trace, disk, "
        "disk+priority variables, variables_to_drop, blacklist+opt_out, blacklist without opt_out, random combination, "
        "everything on}; streams: 'claimed' (ranked system, inputs first, then calculate/add/divide/get), 'spiral' "
        "(self/mutual dependence), 'mutating' (delete_arrays, late set_input, raise switches toggled between requests), "
        "'threshold' (disk-capable configurations whose memory-occupation threshold is moved between requests, "
        "set_input repeated on the same variable and stored period before/after the move, eternal variables given "
        "dated periods), 'delete' (delete_arrays with periods inside / over / across the stored ones, memory vs disk), "
        "'chain' (a last_month spiral pair under a top variable that raises after the spiral was walked, then "
        "further requests at the same period, across store settings), 'eternal' (eternal variables with both an "
        "input and a formula, calculated at dated periods, memory vs disk with/without priority), 'enum' (oracle "
        "only, no engine model: Enum variables over 130-200 members, inputs/defaults/results with indices >= 128, "
        "every request repeated, all configurations, answers also compared with the program's meaning), 'float' "
        "(oracle only: float inputs with -0.0/0.0/inf/NaN overwritten on the same variable and period, memory vs "
        "disk, answers compared bit for bit); "
        "a case is non-trivial when a formula ran and at least one non-plain configuration skipped a store, used the "
        "disk or recorded a trace node with children; distinct by JSON text")
TRUSTED = ["harness/rules.py: compiler from rule-system terms to real Variable subclasses (formulas call the public API)",
           "harness/c17.py: wrappers around rules.ev and simulation.calculate that record what the formulas asked for"]
ASSUMPTIONS = ["value types int, float, bool only (the engine model has no str/enum/date arrays; their disk round trip "
               "is covered by C19/C15)",
               "equality of answers across configurations is claimed for ranked systems (no self-dependence, no "
               "eternal variable with a formula: `ranked` of the model) whose "
               "inputs are all set before the first calculation and that are not mutated afterwards (no delete_arrays, "
               "no switch toggling): a configuration that drops a store recomputes from the current inputs where the "
               "plain run returns the value cached before the mutation; stack and trace clauses are claimed for every "
               "case",
               "generated values stay below 2^22 in absolute value; inexact cases are discarded and counted",
               "disk storage is forced with MemoryConfig(max_memory_occupation=0); the model has one store per "
               "variable, observed as the union of the memory and disk stores"]

PROFILE = {"nvars": (3, 8), "bad": 0.04, "badreq": 0.1, "nparams": 2, "neutral": 0.05, "raise": 0.08}
SPIRAL_PROFILE = {"nvars": (2, 6), "spiral": 0.5, "bad": 0.02, "badreq": 0.05, "nparams": 1, "depth": 2, "raise": 0.05}

_SKIP = set()


def _key(case):
    return json.dumps(case, sort_keys=True)


# ---------------------------------------------------------------------------------------
# generator
# ---------------------------------------------------------------------------------------

def _some(rng, n, p):
    out = [i for i in range(n) if rng.random() < p]
    return out or [rng.randrange(n)]


def cfg_family(rng, n):
    """the non-plain configurations, in a fixed order (index = family member)"""
    return [
        {"trace": True},
        {"disk": True},
        {"disk": True, "priority": _some(rng, n, 0.4)},
        {"drop": _some(rng, n, 0.4)},
        {"blacklist": _some(rng, n, 0.5), "opt_out": True},
        {"blacklist": _some(rng, n, 0.5), "opt_out": False},
        {"trace": rng.random() < 0.5, "disk": rng.random() < 0.5, "priority": _some(rng, n, 0.3),
         "drop": _some(rng, n, 0.25), "blacklist": _some(rng, n, 0.3), "opt_out": rng.random() < 0.6},
        {"trace": True, "disk": True, "priority": _some(rng, n, 0.3), "drop": _some(rng, n, 0.3),
         "blacklist": _some(rng, n, 0.3), "opt_out": True},
        {"trace": True, "drop": list(range(n))},
    ]


def gen_one(rng, k):
    stream = {6: "spiral", 3: "mutating", 1: "threshold", 5: "delete", 8: "chain", 7: "eternal"}.get(k % 9, "claimed")
    if k % 18 == 4:
        return enum_case(rng)
    if k % 18 == 13:
        return float_case(rng)
    case = rules.gen_case(rng, SPIRAL_PROFILE if stream == "spiral" else PROFILE)
    case.pop("cfg", None)
    sys, reqs = case["sys"], case["requests"]
    n = len(sys["vars"])
    if stream not in ("spiral", "eternal"):
        # `ranked` of the model wants eternal variables without formula (their value would be
        # the one of the first period asked): keep a few, make the others plain inputs
        for v in sys["vars"]:
            if v["unit"] == "eternity" and v["formulas"] and rng.random() < 0.85:
                v["formulas"] = []
    if rules.has_tag(sys, "raise") and rng.random() < 0.6:
        sys["switches"] = sorted({rng.randrange(3) for _ in range(rng.randint(1, 2))})
    if stream != "mutating":
        reqs = [r for r in reqs if r[0] != "delete"]
    else:
        calcs = [i for i, r in enumerate(reqs) if r[0] in ("calc", "add", "div")]
        extra = []
        if calcs:
            for _ in range(rng.randint(1, 3)):
                pos = rng.choice(calcs) + 1
                what = rng.random()
                if what < 0.4:
                    sets = [r for r in reqs if r[0] == "set"]
                    if sets:
                        r0 = rng.choice(sets)
                        v = sys["vars"][r0[1]]
                        extra.append((pos, ["set", r0[1], r0[2], rules.input_values(rng, v, rules.count_for(case["pop"], v))]))
                elif what < 0.7:
                    i = rng.randrange(n)
                    extra.append((pos, ["delete", i, rng.choice([None, rules.gen_period(rng, "year")])]))
                else:
                    extra.append((pos, ["switch", rng.randrange(3), rng.random() < 0.6]))
        for pos, r in sorted(extra, key=lambda x: -x[0]):
            reqs.insert(pos, r)
    case["requests"] = reqs
    if stream == "threshold":
        return threshold_case(rng, case)
    if stream == "delete":
        return delete_case(rng, case)
    if stream == "eternal":
        return eternal_case(rng, case)
    if stream == "chain":
        return chain_case(rng, case)
    fam = cfg_family(rng, n)
    # trace always; four others in rotation so that every member is used equally often
    picks = [0] + sorted({1 + (k + j * 2) % (len(fam) - 1) for j in range(4)})
    case["cfgs"] = [{}] + [fam[i] for i in picks]
    case["stream"] = stream
    return case


def threshold_case(rng, case):
    """The memory-occupation threshold moves between requests (pseudo-request ["flip", pc]: sets
    memory_config.max_memory_occupation_pc of configurations that have a memory_config; 1000 =
    never to disk, 0 = always to disk; no effect on the plain run nor on the model), with set_input
    repeated on the same (variable, stored period) before and after the move: eternal variables
    given dated periods, dated variables; then calculations and get_array."""
    sys, pop = case["sys"], case["pop"]
    vs = sys["vars"]
    n0 = len(vs)
    # an eternal input and a monthly reader of it, appended (keeps the system ranked)
    vs.append({"ent": "person", "type": rng.choice(["int", "float"]), "unit": "eternity", "end": None,
               "formulas": [], "default": rng.choice([0, 3]), "neutral": False})
    vs.append({"ent": "person", "type": "int", "unit": "month", "end": None, "default": 0, "neutral": False,
               "formulas": [[[1, 1, 1], ["bin", "add", ["dep", n0, "same", "plain"], ["const", rng.randint(1, 9)]]]]})
    sets = [r for r in case["requests"] if r[0] == "set"]
    rest = [r for r in case["requests"] if r[0] != "set"]
    year = rng.choice(rules.BASE_YEARS)
    targets = [(n0, rules.gen_period(rng, rng.choice(["month", "year", "day"]), year=year))]
    inputs = [i for i, v in enumerate(vs[:n0]) if not v["formulas"]]
    for i in rng.sample(inputs, min(len(inputs), rng.randint(1, 2))):
        u = vs[i]["unit"]
        targets.append((i, rules.gen_period(rng, u if u != "eternity" else rng.choice(["month", "year"]), year=year)))
    pc = rng.choice([1000, 1000, 0])
    reqs = list(sets)
    second = []
    for i, p in targets:
        v = vs[i]
        reqs.append(["set", i, p, rules.input_values(rng, v, rules.count_for(pop, v))])
        p2 = p
        if v["unit"] == "eternity" and rng.random() < 0.5:
            p2 = rules.gen_period(rng, rng.choice(["month", "year"]), year=year)   # same stored key
        second.append(["set", i, p2, rules.input_values(rng, v, rules.count_for(pop, v))])
    reqs.append(["flip", 0 if pc else 1000])
    reqs += second
    if rng.random() < 0.4:
        reqs.append(["flip", rng.choice([0, 1000])])
        i, p = rng.choice(targets)
        reqs.append(["set", i, p, rules.input_values(rng, vs[i], rules.count_for(pop, vs[i]))])
    for i, p in targets:
        q = p if vs[i]["unit"] != "eternity" else rules.gen_period(rng, "month", year=year)
        reqs.append([rng.choice(["calc", "get"]), i, q])
    reqs.append(["calc", n0 + 1, rules.gen_period(rng, "month", year=year)])
    reqs += rest
    case["requests"] = reqs
    n = len(vs)
    case["cfgs"] = [{}, {"disk": True, "pc": pc}, {"disk": True, "pc": pc, "trace": True},
                    {"disk": True, "pc": pc, "priority": _some(rng, n, 0.3)},
                    {"drop": _some(rng, n0, 0.3), "pc": pc},
                    {"disk": True, "pc": 1000 - pc if pc in (0, 1000) else 0}]
    case["stream"] = "threshold"
    return case


def _input_var(unit, ty="int", ent="person", default=0):
    return {"ent": ent, "type": ty, "unit": unit, "end": None, "formulas": [], "default": default, "neutral": False}


def delete_case(rng, case):
    """delete_arrays with periods smaller than, larger than, or partly overlapping the stored ones
    (a month inside a stored year, a year over stored months, a week across a month or year boundary,
    several days), on values held in memory or on disk, followed by get_array / calculate."""
    sys, pop = case["sys"], case["pop"]
    vs = sys["vars"]
    n0 = len(vs)
    y, m, w, d, r = n0, n0 + 1, n0 + 2, n0 + 3, n0 + 4
    vs += [_input_var("year", default=rng.choice([0, 7])), _input_var("month", rng.choice(["int", "float"])),
           _input_var("week"), _input_var("day", default=1)]
    vs.append({"ent": "person", "type": "int", "unit": "month", "end": None, "default": 0, "neutral": False,
               "formulas": [[[1, 1, 1], ["bin", "add", ["dep", m, "same", "plain"], ["dep", y, "this_year", "plain"]]]]})
    Y = rng.choice([2017, 2018, 2019])
    import datetime as _dt
    last_monday_jan = max(_dt.date(Y, 1, dd) for dd in range(25, 32) if _dt.date(Y, 1, dd).weekday() == 0)
    first_monday = min(_dt.date(Y, 1, dd) for dd in range(1, 8) if _dt.date(Y, 1, dd).weekday() == 0)
    week_before = first_monday - _dt.timedelta(days=7)          # usually starts in the previous year
    wk = lambda dt: ["week", [dt.year, dt.month, dt.day], 1]  # noqa: E731
    stored = {
        y: [["year", [Y, 1, 1], 1], ["year", [Y + 1, 1, 1], 1], ["year", [Y - 1, 1, 1], 1]],
        m: [["month", [Y, 1, 1], 1], ["month", [Y, 2, 1], 1], ["month", [Y, 12, 1], 1], ["month", [Y - 1, 12, 1], 1]],
        w: [wk(last_monday_jan), wk(first_monday), wk(week_before), wk(last_monday_jan + _dt.timedelta(days=7))],
        d: [["day", [Y, 1, 31], 1], ["day", [Y, 2, 1], 1], ["day", [Y, 1, 1], 1]],
    }
    pool = [["month", [Y, 1, 1], 1], ["month", [Y, 1, 1], 2], ["month", [Y, 2, 1], 1], ["year", [Y, 1, 1], 1],
            ["year", [Y - 1, 1, 1], 2], ["month", [Y - 1, 12, 1], 1], wk(last_monday_jan), wk(week_before),
            ["day", [Y, 1, 1], 1], ["day", [Y, 1, 30], 7], ["day", [Y, 1, 31], 1], ["week", wk(first_monday)[1], 5],
            ["month", [Y, 1, 1], 12], None]
    sets = [q for q in case["requests"] if q[0] == "set"]
    rest = [q for q in case["requests"] if q[0] not in ("set", "delete")]
    reqs = list(sets)
    for v, ps in stored.items():
        for p in ps:
            if rng.random() < 0.85:
                reqs.append(["set", v, p, rules.input_values(rng, vs[v], rules.count_for(pop, vs[v]))])
    if rng.random() < 0.5:
        reqs.append(["calc", r, ["month", [Y, 1, 1], 1]])
    targets = [y, m, w, d] + [i for i in range(n0) if not vs[i]["formulas"]][:2]
    for _ in range(rng.randint(2, 4)):
        reqs.append(["delete", rng.choice(targets[:4] * 3 + targets[4:]), rng.choice(pool)])
    after = []
    for v, ps in stored.items():
        for p in ps:
            after.append([rng.choice(["get", "calc"]), v, p])
    after.append(["calc", r, ["month", [Y, rng.choice([1, 2, 12]), 1], 1]])
    after.append(["add", m, ["year", [Y, 1, 1], 1]])
    rng.shuffle(after)
    reqs += after[:rng.randint(6, len(after))]
    if rng.random() < 0.4:
        reqs.append(["delete", rng.choice(targets[:4]), rng.choice(pool)])
        reqs += after[:4]
    reqs += rest[:4]
    case["requests"] = reqs
    n = len(vs)
    case["cfgs"] = [{}, {"disk": True}, {"disk": True, "trace": True},
                    {"disk": True, "priority": _some(rng, n, 0.3)},
                    {"disk": True, "drop": _some(rng, n0, 0.3) + ([r] if rng.random() < 0.5 else [])},
                    {"trace": True}]
    case["stream"] = "delete"
    return case


def chain_case(rng, case):
    """A quasi-circular pair A@P = c + B@last_month(P), B@P = d + A@P (self-dependence at last_month,
    cut by the spiral heuristic) below a top variable T@P = B@P (or A@P) + raise(k): with switch k on,
    the request for T walks the spiral and THEN raises (k % 3 == 2: a BaseException); the caller goes
    on asking for A, B, T at the same period P, under configurations that do or do not store them.
    T reads one of A, B, once.  The cut marks every frame from the first frame of the cut variable
    down, so nothing of A or B is ever kept after a request, and what is kept of T was computed from
    a chain that starts the same way in every request: all configurations must answer alike; P is
    the only period asked of A, B, T."""
    sys, pop = case["sys"], case["pop"]
    vs = sys["vars"]
    n0 = len(vs)
    a, b, t = n0, n0 + 1, n0 + 2
    k = rng.choice([1, 2])
    base_month = [i for i in range(n0) if vs[i]["unit"] == "month" and vs[i]["ent"] == "person"]
    fa = ["bin", "add", ["const", rng.randint(1, 9)], ["dep", b, "last_month", "plain"]]
    if base_month and rng.random() < 0.5:
        fa = ["bin", "add", fa, ["dep", rng.choice(base_month), "same", "plain"]]
    fb = ["bin", "add", ["const", rng.randint(1, 9)], ["dep", a, "same", "plain"]]
    ft = ["bin", "add", ["dep", rng.choice([a, b]), "same", "plain"], ["raise", k]]
    if rng.random() < 0.3:
        ft = ["bin", "add", ["bin", "mul", ["const", 2], ft[2]], ["bin", "add", ["const", rng.randint(1, 5)], ["raise", k]]]
    for f in (fa, fb, ft):
        vs.append({"ent": "person", "type": "int", "unit": "month", "end": None, "default": rng.choice([0, 0, 2]),
                   "neutral": False, "formulas": [[[1, 1, 1], f]]})
    sys["switches"] = sorted(set(sys.get("switches", [])) | {k})
    sys["max_loops"] = rng.choice([1, 1, 2, 3])
    P = rules.gen_period(rng, "month")
    sets = [q for q in case["requests"] if q[0] == "set"]
    rest = [q for q in case["requests"] if q[0] in ("calc", "add", "div", "get") and q[1] < n0]
    reqs = list(sets)
    if rng.random() < 0.3:
        reqs += rest[:2]
    reqs.append(["calc", t, P])                                    # walks the spiral, then raises
    tail = [["calc", rng.choice([a, b, t, a, b]), P] for _ in range(rng.randint(2, 5))] + rest[2:5]
    rng.shuffle(tail)
    if rng.random() < 0.6:
        tail.insert(rng.randrange(len(tail) + 1), ["switch", k, False])
        tail.append(["calc", t, P])
    reqs += tail
    case["requests"] = reqs
    n = len(vs)
    case["cfgs"] = [{}, {"trace": True}, {"disk": True}, {"drop": [a]}, {"drop": [rng.choice([b, t])]},
                    {"blacklist": [a, b], "opt_out": True},
                    {"trace": True, "disk": True, "drop": _some(rng, n, 0.3), "blacklist": [rng.choice([a, b, t])],
                     "opt_out": True}]
    case["chain"] = {"a": a, "b": b, "t": t, "P": P}
    case["stream"] = "chain"
    return case


def eternal_case(rng, case):
    """Eternal variables that have BOTH a formula and an input: the input is set first (under the
    eternity period or a dated one - same store key) and must win whenever the variable is then
    calculated, directly or through a reader, at dated periods; stores in memory or on disk, with
    and without the variable among the priority variables."""
    sys, pop = case["sys"], case["pop"]
    vs = sys["vars"]
    n0 = len(vs)
    e, r = n0, n0 + 1
    ety = rng.choice(["int", "float", "bool"])
    fe = ["const", rng.randint(-6, 12)]
    eternal_inputs = [i for i in range(n0) if vs[i]["unit"] == "eternity" and not vs[i]["formulas"]
                      and vs[i]["ent"] == "person"]
    if eternal_inputs and rng.random() < 0.5:
        fe = ["bin", "add", fe, ["dep", rng.choice(eternal_inputs), "same", "plain"]]
    vs.append({"ent": "person", "type": ety, "unit": "eternity", "end": None, "default": 0, "neutral": False,
               "formulas": [[[1, 1, 1], fe]] + ([[[2018, 1, 1], ["const", 3]]] if rng.random() < 0.4 else [])})
    vs.append({"ent": "person", "type": "int", "unit": rng.choice(["month", "year"]), "end": None, "default": 0,
               "neutral": False,
               "formulas": [[[1, 1, 1], ["bin", "add", ["dep", e, "same", "plain"], ["const", rng.randint(1, 9)]]]]})
    sets = [q for q in case["requests"] if q[0] == "set"]
    rest = [q for q in case["requests"] if q[0] not in ("set", "delete")]
    reqs = list(sets)
    year = rng.choice(rules.BASE_YEARS)
    with_formula = [i for i, v in enumerate(vs) if v["unit"] == "eternity" and v["formulas"]]
    for i in with_formula:          # every eternal variable with a formula gets its input first
        p = rng.choice([list(rules.ETERNITY), rules.gen_period(rng, rng.choice(["month", "year", "day"]), year=year)])
        reqs.append(["set", i, p, rules.input_values(rng, vs[i], rules.count_for(pop, vs[i]))])
    mid = []
    for _ in range(rng.randint(2, 4)):
        mid.append([rng.choice(["calc", "calc", "get"]), e,
                    rng.choice([rules.gen_period(rng, rng.choice(["month", "year", "day", "week"]), year=year),
                                list(rules.ETERNITY)])])
    for _ in range(rng.randint(1, 2)):
        mid.append(["calc", r, rules.gen_period(rng, vs[r]["unit"], year=year)])
    mid += rest
    rng.shuffle(mid)
    case["requests"] = reqs + mid
    n = len(vs)
    others = [i for i in range(n) if i != e]
    case["cfgs"] = [{}, {"disk": True}, {"disk": True, "priority": [e]},
                    {"disk": True, "priority": [i for i in others if rng.random() < 0.4] or [r]},
                    {"disk": True, "trace": True, "drop": [r]},
                    {"blacklist": [e, r], "opt_out": True}]
    case["stream"] = "eternal"
    return case


# ---------------------------------------------------------------------------------------
# oracle-only stream: Enum-valued variables over a large enumeration (no engine model: CSkip17)
# ---------------------------------------------------------------------------------------

ENUM_VARS = ["code", "e_in", "e_f", "e_g", "e_h", "reader", "idx"]


def enum_case(rng):
    """Program (fixed shape, random sizes and data): code (int input); e_in (Enum input, default member
    D); e_f = member number code % N, returned as names; e_g = e_in passed through; e_h = member number
    (code + 1) % N, returned as indices; reader = 100 * (e_f == T1) + 10 * (e_g == T2) + (e_h == T1);
    idx = index of e_f as int.  N in 130..200, so indices >= 128 occur as inputs, defaults and results."""
    n = rng.randint(130, 200)
    count = rng.randint(1, 5)
    unit = rng.choice(["year", "month"])
    ps = [f"{y}" if unit == "year" else f"{y}-{m:02d}" for y in (2019, 2020) for m in ((1,) if unit == "year" else (1, 7))]
    ps = rng.sample(ps, rng.randint(1, len(ps)))
    big = lambda: rng.choice([rng.randrange(128, n), rng.randrange(128, n), n - 1, 128, 127, rng.randrange(n)])  # noqa: E731
    codes = {p: [big() + rng.choice([0, 0, n]) for _ in range(count)] for p in ps if rng.random() < 0.9}
    e_in = {p: [big() for _ in range(count)] for p in ps if rng.random() < 0.7}
    t1 = rng.choice([x % n for c in codes.values() for x in c] or [130 % n])
    t2 = rng.choice([x for c in e_in.values() for x in c] or [129])
    reqs = []
    for p in ps:
        block = [[v, p] for v in rng.sample(ENUM_VARS[1:], rng.randint(3, 6))]
        reqs += block + rng.sample(block, rng.randint(1, len(block)))      # asked again: served by the holder
    names = ENUM_VARS[1:]
    some = lambda pr: [v for v in names if rng.random() < pr] or [rng.choice(names)]  # noqa: E731
    cfgs = [{}, {"trace": True}, {"disk": True}, {"disk": True, "priority": some(0.4)}, {"drop": some(0.4)},
            {"drop": ["e_f", "e_h"]}, {"blacklist": some(0.5), "opt_out": True}, {"blacklist": some(0.5)},
            {"trace": True, "disk": True, "drop": some(0.3), "blacklist": some(0.3), "opt_out": True}]
    return {"kind": "enum", "stream": "enum", "n": n, "count": count, "unit": unit, "default": big(),
            "codes": codes, "e_in": e_in, "by_name": rng.random() < 0.5, "t1": t1, "t2": t2,
            "requests": reqs, "cfgs": cfgs, "sys": {"vars": []}, "pop": {}}


_ENUMS = {}


def _enum(n):
    from openfisca_core import indexed_enums
    if n not in _ENUMS:
        _ENUMS[n] = indexed_enums.Enum(f"Big{n}", [(f"m{i:03d}", f"member {i}") for i in range(n)])
    return _ENUMS[n]


def enum_system(case):
    from openfisca_core import indexed_enums
    from openfisca_core.entities import build_entity
    from openfisca_core.taxbenefitsystems import TaxBenefitSystem
    from openfisca_core.variables import Variable
    n, E = case["n"], _enum(case["n"])
    members = list(E)
    unit = rules.UNIT_OBJ[case["unit"]]
    person = build_entity(key="person", plural="persons", label="", is_person=True)
    t1, t2 = members[case["t1"]], members[case["t2"]]

    def f_e_f(person, period):
        return numpy.array([f"m{int(c) % n:03d}" for c in person("code", period)])

    def f_e_g(person, period):
        return person("e_in", period)

    def f_e_h(person, period):
        return (person("code", period) + 1) % n

    def f_reader(person, period):
        return ((person("e_f", period) == t1) * 100.0 + (person("e_g", period) == t2) * 10.0
                + (person("e_h", period) == t1) * 1.0)

    def f_idx(person, period):
        return numpy.array([int(x[1:]) for x in person("e_f", period).decode_to_str()])

    common_ = {"entity": person, "definition_period": unit}
    enum_ = dict(common_, value_type=indexed_enums.Enum, possible_values=E, default_value=members[case["default"]])
    specs = {"code": dict(common_, value_type=int), "e_in": dict(enum_), "e_f": dict(enum_, formula=f_e_f),
             "e_g": dict(enum_, formula=f_e_g), "e_h": dict(enum_, formula=f_e_h),
             "reader": dict(common_, value_type=float, formula=f_reader), "idx": dict(common_, value_type=int, formula=f_idx)}
    tbs = TaxBenefitSystem([person])
    for name in ENUM_VARS:
        tbs.add_variable(type(name, (Variable,), specs[name]))
    return tbs


def enum_expected(case, var, p):
    n, cnt = case["n"], case["count"]
    code = case["codes"].get(p, [0] * cnt)
    ein = case["e_in"].get(p, [case["default"]] * cnt)
    ef = [c % n for c in code]
    eh = [(c + 1) % n for c in code]
    if var == "e_in" or var == "e_g":
        return ein
    if var == "e_f" or var == "idx":
        return ef
    if var == "e_h":
        return eh
    if var == "reader":
        return [100 * (a == case["t1"]) + 10 * (b == case["t2"]) + (c == case["t1"]) for a, b, c in zip(ef, ein, eh)]
    return code


def run_enum_cfg(case, cfg):
    from openfisca_core.experimental import MemoryConfig
    from openfisca_core.simulations import SimulationBuilder
    tbs = enum_system(case)
    sim = SimulationBuilder().build_default_simulation(tbs, count=case["count"])
    if cfg.get("disk") or cfg.get("drop"):
        sim.memory_config = MemoryConfig(max_memory_occupation=0 if cfg.get("disk") else 1,
                                         priority_variables=cfg.get("priority", []),
                                         variables_to_drop=cfg.get("drop", []))
        if not cfg.get("disk"):
            sim.memory_config.max_memory_occupation_pc = 1000
    if cfg.get("blacklist"):
        tbs.cache_blacklist = set(cfg["blacklist"])
    if cfg.get("opt_out"):
        sim.opt_out_cache = True
    if cfg.get("trace"):
        sim.trace = True
    try:
        for p, c in case["codes"].items():
            sim.set_input("code", p, numpy.array(c))
        for p, idxs in case["e_in"].items():
            sim.set_input("e_in", p, numpy.array([f"m{i:03d}" for i in idxs]) if case["by_name"] else numpy.array(idxs))
        answers = []
        for var, p in case["requests"]:
            try:
                a = sim.calculate(var, p)
                if hasattr(a, "decode_to_str"):
                    a = [int(x[1:]) for x in a.decode_to_str()]
                else:
                    a = [int(x) for x in numpy.asarray(a).tolist()]
            except Exception as ex:  # noqa: BLE001
                a = Err(errkind(ex), f"{type(ex).__name__}: {ex}"[:200])
            answers.append([a, len(sim.tracer.stack)])
        traced = None
        if cfg.get("trace"):
            # the values the trace holds for the requested nodes, in order of the trees
            traced = []
            for node in sim.tracer.trees:
                v = node.value
                traced.append([str(node.name), str(node.period),
                               None if v is None else ([int(x[1:]) for x in v.decode_to_str()] if hasattr(v, "decode_to_str")
                                                       else [int(x) for x in numpy.asarray(v).tolist()])])
        return {"cfg": cfg, "answers": answers, "traced": traced}
    finally:
        d = getattr(sim, "_data_storage_dir", None)
        if d:
            for pop_ in sim.populations.values():
                for h in pop_._holders.values():
                    if h._disk_storage:
                        h._disk_storage.preserve_storage_dir = True
            shutil.rmtree(d, ignore_errors=True)


def enum_oracle(case, obs):
    runs = obs["enum"]
    plain = runs[0]
    for run in runs:
        for k, ((var, p), (a, depth)) in enumerate(zip(case["requests"], run["answers"])):
            if depth != 0:
                return f"stack: evaluation stack not empty after request {k} {var} {p} under {run['cfg']}: depth {depth}"
            want = enum_expected(case, var, p)
            if a != want:
                return (f"enum-value: request {k} {var}<{p}> gives {a!r} under {run['cfg']}; the program's meaning is "
                        f"{want} (enumeration of {case['n']} members)")
            if not same_answer(a, plain["answers"][k][0]):
                return f"answers: request {k} {var}<{p}> gives {a!r} under {run['cfg']} and {plain['answers'][k][0]!r} under the plain configuration"
        if run["traced"] is not None:
            if len(run["traced"]) != len(case["requests"]):
                return f"trace: {len(run['traced'])} trees for {len(case['requests'])} requests under {run['cfg']}"
            for (name, per, val), (var, p), (a, _d) in zip(run["traced"], case["requests"], run["answers"]):
                if name != var or val != (None if isinstance(a, Err) else a):
                    return f"trace: tree {name}<{per}> holds {val}, the request {var}<{p}> returned {a!r} under {run['cfg']}"
    return None


# ---------------------------------------------------------------------------------------
# oracle-only stream: float inputs with signed zeros and infinities overwritten, memory vs disk
# ---------------------------------------------------------------------------------------

def _canon(x):
    x = float(x)
    return "nan" if x != x else x.hex()          # the hex form keeps the sign of zero


def float_case(rng):
    """x: float input of a month; y = copysign(1, x) (the sign of a zero becomes +-1); z = x * 1 (a
    cached copy).  The same (variable, period) is written several times - set_input again, or an
    input over a cached default - with arrays that differ from the stored one only in the sign of
    a zero, or not at all, or in other entries (+-inf, NaN, numbers); then x, y, z are read.  All
    configurations store what the plain one stores (memory or disk, priority or not, traced or
    not), so every answer must be bit for bit the plain run's; a direct read of x is the last
    array written."""
    count = rng.randint(1, 5)
    ps = rng.sample(["2019-01", "2019-02", "2020-07"], rng.randint(1, 3))
    special = [0.0, -0.0, 0.0, -0.0, float("inf"), float("-inf"), 1.5, -2.25, 0.0, float("nan")]
    steps = []
    for p in ps:
        a = [rng.choice(special) for _ in range(count)]
        if rng.random() < 0.3:
            steps.append(["calc", rng.choice(["x", "z", "y"]), p])       # the default gets cached first
            if rng.random() < 0.5:
                a = [rng.choice([0.0, -0.0]) for _ in range(count)]      # an input equal (==) to the cached default
        steps.append(["set", p, [_canon(v) for v in a]])
        if rng.random() < 0.4:
            steps.append([rng.choice(["calc", "get"]), "x", p])
        for _ in range(rng.randint(1, 2)):
            kind = rng.random()
            if kind < 0.6:
                b = [(-v if v == 0 and rng.random() < 0.7 else v) for v in a]          # zeros change sign
            elif kind < 0.75:
                b = list(a)
            else:
                b = [rng.choice(special) if rng.random() < 0.5 else v for v in a]
            steps.append(["set", p, [_canon(v) for v in b]])
            a = b
        reads = [["calc", "x", p], ["calc", "y", p], ["calc", "z", p], ["get", "x", p]]
        rng.shuffle(reads)
        steps += reads[:rng.randint(2, 4)]
    cfgs = [{}, {"disk": True}, {"disk": True, "priority": ["x"]}, {"disk": True, "priority": ["y", "z"]},
            {"disk": True, "trace": True}, {"trace": True}]
    return {"kind": "float", "stream": "float", "count": count, "requests": steps, "cfgs": cfgs,
            "sys": {"vars": []}, "pop": {}}


def float_system():
    from openfisca_core.entities import build_entity
    from openfisca_core.taxbenefitsystems import TaxBenefitSystem
    from openfisca_core.variables import Variable
    person = build_entity(key="person", plural="persons", label="", is_person=True)
    base = {"entity": person, "definition_period": rules.UNIT_OBJ["month"], "value_type": float}

    def f_y(person, period):
        return numpy.copysign(numpy.float32(1), person("x", period))

    def f_z(person, period):
        return person("x", period) * numpy.float32(1)

    tbs = TaxBenefitSystem([person])
    for name, extra in (("x", {}), ("y", {"formula": f_y}), ("z", {"formula": f_z})):
        tbs.add_variable(type(name, (Variable,), dict(base, **extra)))
    return tbs


def configure_free(sim, tbs, cfg):
    from openfisca_core.experimental import MemoryConfig
    if cfg.get("disk") or cfg.get("drop"):
        sim.memory_config = MemoryConfig(max_memory_occupation=0 if cfg.get("disk") else 1,
                                         priority_variables=cfg.get("priority", []),
                                         variables_to_drop=cfg.get("drop", []))
        if not cfg.get("disk"):
            sim.memory_config.max_memory_occupation_pc = 1000
    if cfg.get("blacklist"):
        tbs.cache_blacklist = set(cfg["blacklist"])
    if cfg.get("opt_out"):
        sim.opt_out_cache = True
    if cfg.get("trace"):
        sim.trace = True


def cleanup_free(sim):
    d = getattr(sim, "_data_storage_dir", None)
    if d:
        for pop_ in sim.populations.values():
            for h in pop_._holders.values():
                if h._disk_storage:
                    h._disk_storage.preserve_storage_dir = True
        shutil.rmtree(d, ignore_errors=True)


def run_float_cfg(case, cfg):
    from openfisca_core.simulations import SimulationBuilder
    tbs = float_system()
    sim = SimulationBuilder().build_default_simulation(tbs, count=case["count"])
    configure_free(sim, tbs, cfg)
    try:
        answers = []
        with numpy.errstate(all="ignore"):
            for st in case["requests"]:
                try:
                    if st[0] == "set":
                        vals = [float("nan") if h == "nan" else float.fromhex(h) for h in st[2]]
                        sim.set_input("x", st[1], numpy.array(vals, dtype=numpy.float32))
                        a = None
                    else:
                        arr = sim.calculate(st[1], st[2]) if st[0] == "calc" else sim.get_array(st[1], st[2])
                        a = None if arr is None else [_canon(v) for v in numpy.asarray(arr).tolist()]
                except Exception as ex:  # noqa: BLE001
                    a = Err(errkind(ex), f"{type(ex).__name__}: {ex}"[:200])
                answers.append([a, len(sim.tracer.stack)])
        return {"cfg": cfg, "answers": answers}
    finally:
        cleanup_free(sim)


def float_oracle(case, obs):
    runs = obs["float"]
    plain = runs[0]
    last = {}
    for k, st in enumerate(case["requests"]):
        if st[0] == "set":
            last[st[1]] = st[2]
        for run in runs:
            a, depth = run["answers"][k]
            if depth != 0:
                return f"stack: evaluation stack not empty after step {k} {st} under {run['cfg']}: depth {depth}"
            if not same_answer(a, plain["answers"][k][0]):
                return (f"answers: step {k} {st} gives {a!r} under {run['cfg']} and {plain['answers'][k][0]!r} under "
                        f"the plain configuration (same stores, memory or disk; floats in hex, the sign of zero counts)")
            if st[0] != "set" and st[1] == "x" and st[2] in last and a != last[st[2]]:
                return f"float-value: step {k} {st} gives {a!r} under {run['cfg']}; the last array written is {last[st[2]]}"
    return None


def generate(rng, tier):
    n = {"quick": 320, "escalated": 800, "thorough": 5000}[tier]
    return [gen_one(rng, k) for k in range(n)]


# ---------------------------------------------------------------------------------------
# harness-side record of what the formulas asked for
# ---------------------------------------------------------------------------------------

class Recorder:
    def __init__(self):
        self.roots = []
        self.stack = []


_plain_ev = rules.ev


def _ev_hook(sys, switches, e, ent, sim, period, parameters):
    rec = getattr(sim, "_c17_rec", None)
    if rec is None or e[0] != "dep" or not rec.stack:
        return _plain_ev(sys, switches, e, ent, sim, period, parameters)
    frame = rec.stack[-1]
    entry = {"v": e[1], "pt": e[2], "opt": e[3], "q": None, "ret": None, "err": None, "lo": len(frame["children"])}
    try:
        q = rules.apply_ptrans(e[2], period)
        entry["q"] = rules.period_json(q) if isinstance(q, periods.Period) else None
    except Exception:  # noqa: BLE001
        entry["q"] = None
    frame["reads"].append(entry)
    try:
        out = _plain_ev(sys, switches, e, ent, sim, period, parameters)
        entry["ret"] = out
        return out
    except BaseException as ex:  # noqa: BLE001 - rules.HarnessAbort is not an Exception
        entry["err"] = errkind(ex)
        raise
    finally:
        entry["hi"] = len(frame["children"])


rules.ev = _ev_hook


def install_recorder(sim):
    rec = Recorder()
    sim._c17_rec = rec
    real = sim.calculate          # bound method of the class under test

    def calculate(variable_name, period):
        if not isinstance(period, periods.Period):
            try:
                period = periods.period(period)     # the public API accepts the text form too
            except Exception:  # noqa: BLE001
                return real(variable_name, period)
        node = {"name": variable_name, "period": rules.period_json(period), "value": None, "children": [], "reads": []}
        (rec.stack[-1]["children"] if rec.stack else rec.roots).append(node)
        rec.stack.append(node)
        try:
            result = real(variable_name, period)
            node["value"] = result
            return result
        finally:
            rec.stack.pop()

    sim.calculate = calculate
    return rec


def var_index(name):
    name = str(name)
    return int(name[1:]) if name.startswith("v") else int(name[len("ghost"):])


def node_key(name, pj):
    return [var_index(name)] + rules.period_key(pj)


def opt_ints(a):
    return None if a is None else rules.ints(a)


def ser_recorded(node):
    reads = []
    for r in node["reads"]:
        if r["opt"] == "divide" and r["ret"] is not None:
            # the model divides exactly (DESIGN section 4); a malformed DIVIDE dependency can be accepted
            # by the code with an inexact quotient that a later `not`/comparison hides from the answers
            if any(x != int(x) for x in numpy.asarray(r["ret"], dtype=numpy.float64).tolist() if x == x and abs(x) != float("inf")):
                raise rules.Inexact("inexact DIVIDE inside a formula")
        reads.append({"v": r["v"], "pt": r["pt"], "opt": r["opt"],
                      "q": None if r["q"] is None else rules.period_key(r["q"]), "qj": r["q"],
                      "ret": None if r["ret"] is None else numpy.asarray(r["ret"], dtype=numpy.float64).tolist(),
                      "err": r["err"], "lo": r["lo"], "hi": r["hi"]})
    return {"key": node_key(node["name"], node["period"]), "value": opt_ints(node["value"]),
            "children": [ser_recorded(c) for c in node["children"]], "reads": reads}


def ser_tracer_node(node):
    return [node_key(node.name, rules.period_json(node.period)), opt_ints(node.value),
            [ser_tracer_node(c) for c in node.children]]


def ser_flat(sim):
    out = []
    for key, entry in sim.tracer.get_flat_trace().items():
        out.append([key, list(entry["dependencies"]), opt_ints(entry["value"])])
    return out


def flat_key_text(k):
    """FlatTrace.key of a node key [v, unit, y, m, d, size]: 'name<period>' (period text through the
    implementation's own str(Period), exercised by C05)"""
    unit = rules.UNITS[k[1]]
    p = rules.mk_period([unit, k[2:5], k[5]])
    return f"v{k[0]}<{p}>", f"ghost{k[0]}<{p}>"


# ---------------------------------------------------------------------------------------
# implementation driver
# ---------------------------------------------------------------------------------------

def run_cfg(case, cfg):
    sys, pop = case["sys"], case["pop"]
    switches = set(sys.get("switches", []))
    tbs = rules.build_system(sys, switches)
    sim = rules.build_simulation(tbs, pop, cfg, sys)
    if sim.memory_config is not None and "pc" in cfg:
        sim.memory_config.max_memory_occupation_pc = cfg["pc"]
    rec = install_recorder(sim)
    reqs, extra = [], []
    try:
        for r in case["requests"]:
            try:
                if r[0] == "flip":
                    if sim.memory_config is not None:
                        sim.memory_config.max_memory_occupation_pc = r[1]
                    a = None
                else:
                    a = rules.do_request(sim, sys, switches, r)
            except rules.Inexact:
                raise
            except Exception as e:  # noqa: BLE001
                a = Err(errkind(e), f"{type(e).__name__}: {e}"[:200])
            reqs.append([a, len(sim.tracer.stack)])
            extra.append({"rec_depth": len(rec.stack),
                          "cursor_none": (getattr(sim.tracer, "_current_node", None) is None)})
        out = {"cfg": cfg, "reqs": reqs, "extra": extra, "recorded": [ser_recorded(n) for n in rec.roots],
               "cache": rules.cache_obs(sim, sys),       # holders' content after the last request
               "disk_entries": sum(len(h._disk_storage.get_known_periods())
                                   for h in (sim.get_holder(f"v{i}") for i in range(len(sys["vars"])))
                                   if h._disk_storage)}
        if cfg.get("trace"):
            out["trees"] = [ser_tracer_node(n) for n in sim.tracer.trees]
            out["flat"] = ser_flat(sim)
            out["open"] = 0 if sim.tracer._current_node is None else 1
        return out
    finally:
        d = getattr(sim, "_data_storage_dir", None)
        if d:
            # the harness removes the temporary directory itself; the storages' own __del__ would
            # complain about the missing directory later
            for pop_ in sim.populations.values():
                for h in pop_._holders.values():
                    if h._disk_storage:
                        h._disk_storage.preserve_storage_dir = True
            shutil.rmtree(d, ignore_errors=True)


def run_impl(case):
    with warnings.catch_warnings():
        warnings.simplefilter("ignore")
        if case.get("kind") == "enum":
            return {"enum": [run_enum_cfg(case, cfg) for cfg in case["cfgs"]]}
        if case.get("kind") == "float":
            return {"float": [run_float_cfg(case, cfg) for cfg in case["cfgs"]]}
        try:
            return {"runs": [run_cfg(case, cfg) for cfg in case["cfgs"]]}
        except rules.Inexact:
            _SKIP.add(_key(case))
            return "skip"


# ---------------------------------------------------------------------------------------
# model side
# ---------------------------------------------------------------------------------------

def coq_case(case):
    if _key(case) in _SKIP or case.get("kind") in ("enum", "float"):
        return "CSkip17"
    n = len(case["sys"]["vars"])
    cfgs = clist([f"({cbool(c.get('trace'))}, {clist([cbool(rules.nostore(c, i)) for i in range(n)])})"
                  for c in case["cfgs"]])
    return (f"(CCfg {rules.csys(case['sys'], None)} {rules.cpop(case['pop'])} "
            f"{clist([crequest(r) for r in case['requests']])} {cfgs})")


def crequest(r):
    # the threshold move has no counterpart in the model: switching off a switch that no formula
    # consults leaves the rule system as it is and answers None
    return "RSwitch 99%nat false" if r[0] == "flip" else rules.crequest(r)


def final_cache(run):
    """holders' content after the last request; a key present in both the memory and the disk
    store of a holder is listed twice by get_known_periods (the memory value is the one read)"""
    out = []
    for e in run["cache"]:
        if not out or out[-1][0] != e[0]:
            out.append(e)
    return out


def obs_for_coq(case, obs):
    """what the model must reproduce; the textual keys of the flat trace are replaced by the node
    keys of the trees that print to them (a text that no node prints to is kept and never matches)"""
    if obs == "skip" or isinstance(obs, Err):
        return obs
    if case.get("kind") in ("enum", "float"):
        return "skip"            # no engine model for Enum values / signed zeros, inf, NaN: oracle only
    out = []
    for run in obs["runs"]:
        if run["cfg"].get("trace"):
            keys = {}
            for t in run["trees"]:
                for n in browse(t):
                    a, b = flat_key_text(n[0])
                    keys.setdefault(a if n[0][0] < len(case["sys"]["vars"]) else b, n[0])
            flat = [[keys.get(k, k), [keys.get(d, d) for d in deps], val] for k, deps, val in run["flat"]]
            if len(run["trees"]) > 1000:
                flat = None          # Corr_C17.run_cfg leaves the flat trace out beyond 1000 trees
            out.append([[o[:2] for o in run["reqs"]], final_cache(run), [run["trees"], flat, run["open"]]])
        else:
            out.append([[o[:2] for o in run["reqs"]], final_cache(run), None])
    return out


# ---------------------------------------------------------------------------------------
# oracle: the property's statement evaluated on the implementation
# ---------------------------------------------------------------------------------------

def browse(t):
    yield t
    for c in t[2]:
        yield from browse(c)


def rec_to_tree(n):
    return [n["key"], n["value"], [rec_to_tree(c) for c in n["children"]]]


def model_ranked(sys):
    """`ranked` of coq/proofs/EngineProofs.v: dependencies point to strictly smaller indices and
    eternal variables carry no formula (the value of an eternal variable with a dated or
    period-reading formula is the one computed for whichever period was requested first, so it
    legitimately differs when the store is skipped)"""
    return rules.is_ranked(sys) and not any(v["unit"] == "eternity" and v["formulas"] for v in sys["vars"])


def chain_ok(case):
    """the scope described in chain_case, recognised from the case itself"""
    ch = case.get("chain")
    if not ch:
        return False
    sys = case["sys"]
    a, b, t, P = ch["a"], ch["b"], ch["t"], ch["P"]
    vs = sys["vars"]
    if [a, b, t] != [len(vs) - 3, len(vs) - 2, len(vs) - 1] or not model_ranked({"vars": vs[:a]}):
        return False
    for i, v in enumerate(vs[:a]):
        for _, e in v["formulas"]:
            if any(dd[1] in (a, b, t) for dd in rules.deps_of(e)):
                return False
    da = [dd[1:] for dd in rules.deps_of(vs[a]["formulas"][0][1])]
    db = [dd[1:] for dd in rules.deps_of(vs[b]["formulas"][0][1])]
    dt = [dd[1:] for dd in rules.deps_of(vs[t]["formulas"][0][1])]
    if [x for x in da if x[0] >= a] != [[b, "last_month", "plain"]] or db != [[a, "same", "plain"]]:
        return False
    # T reads ONE of them, once: reading both, the second read is a cache hit (computed below the
    # first) in the plain run and a recomputation from the top where it is not stored - the spiral
    # heuristic then cuts elsewhere, by design
    if len(dt) != 1 or dt[0][0] not in (a, b) or dt[0][1:] != ["same", "plain"]:
        return False
    for r in case["requests"]:
        if r[0] == "switch" and r[2]:
            return False                      # switches only go off: nothing kept becomes stale
        if r[0] != "switch" and r[1] >= a and (r[0] != "calc" or r[2] != P):
            return False
    return True


def inputs_shadow_eternal_formulas(case):
    """ranked but for eternal variables with a formula, each of which gets an input before the first
    calculation (and claimed_invariance refuses deletions): their formulas never run, the input wins"""
    sys = case["sys"]
    if not rules.is_ranked(sys):
        return False
    need = {i for i, v in enumerate(sys["vars"]) if v["unit"] == "eternity" and v["formulas"]}
    for r in case["requests"]:
        if r[0] == "set" and not sys["vars"][r[1]].get("neutral") and len(r[3]) == rules.count_for(case["pop"], sys["vars"][r[1]]):
            need.discard(r[1])
        if r[0] in ("calc", "add", "div", "get"):
            break
    return not need


def claimed_invariance(case):
    if not model_ranked(case["sys"]) and not chain_ok(case) and not inputs_shadow_eternal_formulas(case):
        return False
    seen_calc = False
    for r in case["requests"]:
        if r[0] == "delete" or (r[0] == "switch" and not chain_ok(case)):
            return False
        if r[0] in ("calc", "add", "div"):
            seen_calc = True
        if r[0] == "set" and seen_calc:
            return False
    return True


def same_answer(a, b):
    if isinstance(a, Err) or isinstance(b, Err):
        return isinstance(a, Err) and isinstance(b, Err) and a.kind == b.kind
    return a == b


def first_diff(a, b, path="trees"):
    """first difference between two forests of [key, value, children]"""
    if len(a) != len(b):
        return f"{path}: {len(a)} node(s) recorded by the tracer, {len(b)} calculation(s) performed: " \
               f"{[n[0] for n in a]} vs {[n[0] for n in b]}"
    for i, (x, y) in enumerate(zip(a, b)):
        if x[0] != y[0]:
            return f"{path}[{i}]: tracer has {x[0]}, calculation performed was {y[0]}"
        if x[1] != y[1]:
            return f"{path}[{i}] {x[0]}: tracer value {x[1]}, value returned {y[1]}"
        d = first_diff(x[2], y[2], f"{path}[{i}]{x[0]}.children")
        if d:
            return d
    return None


def check_reads(case, node):
    """the children of a recorded calculation are exactly what its formula's dependency reads asked
    for, read by read, and each read returned what its calculations returned"""
    sys = case["sys"]
    pos = 0
    kids = node["children"]
    for r in node["reads"]:
        if r["lo"] != pos:
            return f"calculation(s) outside any dependency read under {node['key']}"
        calls = kids[r["lo"]:r["hi"]]
        pos = r["hi"]
        known = r["v"] < len(sys["vars"])
        if r["q"] is None or not known or r["opt"] in ("both", "unknown"):
            if calls:
                return f"read {r['v']} {r['pt']} {r['opt']} under {node['key']}: refused request made calculations"
            continue
        for c in calls:
            if c["key"][0] != r["v"]:
                return f"read of v{r['v']} under {node['key']} calculated {c['key']}"
        if r["opt"] == "plain":
            if len(calls) > 1:
                return f"plain read of v{r['v']} under {node['key']}: {len(calls)} calculations"
            if calls:
                c = calls[0]
                if c["key"] != [r["v"]] + r["q"]:
                    return f"plain read of v{r['v']} at {r['q']} under {node['key']} calculated {c['key']}"
                if r["ret"] is not None and c["value"] != [int(x) for x in r["ret"]]:
                    return f"plain read of {c['key']} under {node['key']} returned {r['ret']}, calculation gave {c['value']}"
                if r["ret"] is None and c["value"] is not None and r["err"] is None:
                    return f"plain read of {c['key']}: no value"
            elif r["ret"] is not None:
                return f"plain read of v{r['v']} under {node['key']} returned a value without a calculation"
        elif r["opt"] == "add":
            if r["ret"] is not None:
                unit = sys["vars"][r["v"]]["unit"]
                subs = [rules.period_key(rules.period_json(s))
                        for s in rules.mk_period(r["qj"]).get_subperiods(rules.UNIT_OBJ[unit])]
                if [c["key"][1:] for c in calls] != subs:
                    return f"ADD read of v{r['v']} over {r['q']} under {node['key']}: calculated {[c['key'] for c in calls]}"
                total = [0] * len(r["ret"])
                for c in calls:
                    if c["value"] is None:
                        return f"ADD read of v{r['v']} returned a value although {c['key']} failed"
                    total = [x + y for x, y in zip(total, c["value"])]
                if calls and total != [int(x) for x in r["ret"]]:
                    return f"ADD read of v{r['v']} over {r['q']} under {node['key']} returned {r['ret']}, calculations sum to {total}"
            elif any(c["value"] is None for c in calls[:-1]):
                return f"ADD read of v{r['v']} continued after a failed calculation"
        elif r["opt"] == "divide":
            if len(calls) > 1:
                return f"DIVIDE read of v{r['v']} under {node['key']}: {len(calls)} calculations"
            if r["ret"] is not None:
                if len(calls) != 1 or calls[0]["value"] is None:
                    return f"DIVIDE read of v{r['v']} under {node['key']} returned a value without a calculation"
                den = rules.divide_denominator(sys, r["v"], r["qj"])
                if den:
                    for x, y in zip(r["ret"], calls[0]["value"]):
                        if abs(x * den - y) > 1e-3 * max(1.0, abs(y)):
                            return f"DIVIDE read of v{r['v']} at {r['q']} returned {r['ret']}, calculation gave {calls[0]['value']} / {den}"
    if pos != len(kids):
        return f"calculation(s) outside any dependency read under {node['key']}"
    for c in kids:
        m = check_reads(case, c)
        if m:
            return m
    return None


def expected_flat(forest, nvars):
    out, seen = [], set()
    for t in forest:
        for n in browse(t):
            a, b = flat_key_text(n[0])
            k = a if n[0][0] < nvars else b
            if k in seen:
                continue
            seen.add(k)
            deps = []
            for c in n[2]:
                ca, cb = flat_key_text(c[0])
                deps.append(ca if c[0][0] < nvars else cb)
            out.append([k, deps, n[1]])
    return out


def oracle(case, obs):
    if obs == "skip":
        return None
    if isinstance(obs, Err):
        return f"driver: the case could not be run: {obs.kind} {obs.msg}"
    if case.get("kind") == "enum":
        return enum_oracle(case, obs)
    if case.get("kind") == "float":
        return float_oracle(case, obs)
    runs = obs["runs"]
    plain = runs[0]
    nvars = len(case["sys"]["vars"])
    for run in runs:
        cfg = run["cfg"]
        # stack empty after every top-level request, successful or not
        for k, (a, depth) in enumerate(run["reqs"]):
            if depth != 0:
                return f"stack: evaluation stack not empty after request {k} {case['requests'][k]} under {cfg}: depth {depth}"
            if not run["extra"][k]["cursor_none"]:
                return f"cursor: tracer's current node not reset after request {k} {case['requests'][k]} under {cfg}"
        # the formulas' reads account for every calculation performed
        for t in run["recorded"]:
            m = check_reads(case, t)
            if m:
                return f"reads: under {cfg}: {m}"
        # the trace lists exactly the calculations performed, with the values returned
        if cfg.get("trace"):
            want = [rec_to_tree(t) for t in run["recorded"]]
            d = first_diff(run["trees"], want)
            if d:
                return f"trace: under {cfg}: {d}"
            ef = expected_flat(want, nvars)
            if run["flat"] != ef:
                bad = next((x for x, y in zip(run["flat"], ef) if x != y), None)
                return f"flat-trace: under {cfg}: entry {bad} differs from the calculations performed (or missing entries)"
    # configurations that store exactly what the plain one stores (tracer, disk, priority variables,
    # threshold; no holder skips its store): every answer of every request kind, in every system
    # and after any request sequence, is the plain run's
    for run in runs[1:]:
        if any(rules.nostore(run["cfg"], i) for i in range(nvars)):
            continue
        for k, r in enumerate(case["requests"]):
            a, b = plain["reqs"][k][0], run["reqs"][k][0]
            if not same_answer(a, b):
                return (f"answers: request {k} {r} gives {b!r} under {run['cfg']} and {a!r} under the plain "
                        f"configuration (same stores, memory or disk)")
    # same answers as the plain run
    if claimed_invariance(case):
        for run in runs[1:]:
            for k, r in enumerate(case["requests"]):
                # get_array of an input that was set for that stored period does not depend on the
                # configuration either (set_input stores whatever the settings)
                pure_input = (r[0] == "get" and r[1] < nvars and not case["sys"]["vars"][r[1]]["formulas"]
                              and any(q[0] == "set" and q[1] == r[1]
                                      and (q[2] == r[2] or case["sys"]["vars"][r[1]]["unit"] == "eternity")
                                      for q in case["requests"][:k]))
                if r[0] not in ("calc", "add", "div") and not pure_input:
                    continue
                a, b = plain["reqs"][k][0], run["reqs"][k][0]
                if not same_answer(a, b):
                    return (f"answers: request {k} {r} gives {b!r} under {run['cfg']} and {a!r} under the plain "
                            f"configuration")
    return None


def nontrivial(case, obs):
    if obs == "skip" or isinstance(obs, Err):
        return False
    if case.get("kind") == "enum":
        return any(isinstance(a, list) and any(x >= 128 for x in a) for a, _ in obs["enum"][0]["answers"])
    if case.get("kind") == "float":
        return any(isinstance(a, list) and any(h.startswith("-0x0.0") for h in a) for a, _ in obs["float"][0]["answers"])
    runs = obs["runs"]
    formula_ran = any(t["children"] or t["reads"] for t in runs[0]["recorded"]) or (
        len(runs[0]["cache"]) > sum(1 for r in case["requests"] if r[0] == "set"))
    differs = False
    for run in runs[1:]:
        cfg = run["cfg"]
        if cfg.get("trace") and any(t[2] for t in run["trees"]):
            differs = True
        if run["disk_entries"]:
            differs = True
        if len(final_cache(run)) != len(final_cache(runs[0])):
            differs = True
    return bool(formula_ran and differs)


def classify(case, obs):
    if obs == "skip":
        return "skipped-inexact"
    if isinstance(obs, Err):
        return "driver-error"
    if case.get("kind") in ("enum", "float"):
        return case["kind"] + " (oracle only)"
    kinds = sorted({o[0].kind for o in obs["runs"][0]["reqs"] if isinstance(o[0], Err)})
    tag = case.get("stream", "?") + ("" if rules.is_ranked(case["sys"]) else "/self-dependent") + (
        "" if model_ranked(case["sys"]) or not rules.is_ranked(case["sys"]) else "/eternal-formula")
    return tag + ("+" + "+".join(kinds) if kinds else "")


def shrink(case, still_fails):
    """drop configurations, then requests, then variables' formulas while the failure remains"""
    if len(case.get("requests", [])) > 400:
        return None                      # scale cases are reported as they are
    cur = json.loads(json.dumps(case))
    changed = True
    budget = 150
    while changed and budget > 0:
        changed = False
        for i in range(len(cur["cfgs"]) - 1, 0, -1):
            if len(cur["cfgs"]) <= 2:
                break
            cand = json.loads(json.dumps(cur))
            del cand["cfgs"][i]
            budget -= 1
            if still_fails(cand):
                cur, changed = cand, True
        for i in range(len(cur["requests"]) - 1, -1, -1):
            cand = json.loads(json.dumps(cur))
            del cand["requests"][i]
            budget -= 1
            if budget <= 0:
                break
            if still_fails(cand):
                cur, changed = cand, True
    return cur if cur != case else None
