"""C02 - what was calculated before never corrupts what is calculated or kept next."""
from __future__ import annotations

import copy
import json
import warnings

import numpy

import c02_special
import rules
from common import Err

PROP = "C02"
COQ_HEADER = "From Verif Require Import Np Group Param Engine CorrEng."
COQ_RUN = "CorrEng.run"
SHARD = 40
ANCHORS = ["openfisca_core/simulations/simulation.py", "openfisca_core/holders/holder.py",
           "openfisca_core/data_storage/in_memory_storage.py"]
RULE = ("two streams. (a) ranked rule systems (no self-dependence) with a request list run in the given order, in a "
        "permuted order and request by request on fresh simulations (order independence). (b) spiral systems: a variable "
        "depending on itself at another period (chains v@p <- v@p-1, mutual pairs, diamond readers of a spiralling "
        "variable, max_spiral_loops 1-3) with several top-level requests. The given-order run is compared with the Coq "
        "machine after every request (answers, stack, whole cache). Non-trivial: at least one formula ran; distinct by JSON text")
TRUSTED = ["harness/rules.py: compiler from rule-system terms to real Variable subclasses (formulas call the public API)",
           "harness/c02.py wraps Simulation._calculate in its own process (no repo hook) to record, for every stored entry, "
           "which cache entries were readable and untainted when its computation started (the witness set S)"]
ASSUMPTIONS = ["sentence 2 is read as: every retained value is what a fresh simulation computes from the inputs and SOME of "
               "the other readable values (the witness: the untainted cache content when its computation started); the "
               "all-values and the inputs-only readings are false for upstream's spiral heuristic by design (DESIGN.md C02 Scope)",
               "generated values stay below 2^22 (exact in int32/float32); inexact cases are discarded and counted",
               "special numeric values (64-bit integers above 2^31, float64 results that are not float32 values, -0.0, "
               "inf, NaN) and daily histories of more than 4096 days are exercised by an oracle-only stream "
               "(harness/c02_special.py: answers compared bit for bit between the given order, a permuted order, a repeated "
               "request and a fresh simulation; CSkip on the Coq side)"]

RANKED = {"nvars": (3, 7), "bad": 0.0, "badreq": 0.0, "nparams": 2, "neutral": 0.03, "nreq": (4, 8)}

_SKIP = set()


def _key(case):
    return json.dumps(case, sort_keys=True)


# ---- spiral systems ----------------------------------------------------------------------

def spiral_case(rng):
    """Month variables; W spirals on itself (possibly through a partner); readers of W."""
    shape = rng.choice(["chain", "mutual", "diamond", "f1", "two-spirals"])
    L = rng.choice([1, 1, 2, 3])
    k = rng.randint(1, 5)
    vs = []

    def var(formula, ty="int", default=0):
        vs.append({"ent": "person", "type": ty, "unit": "month", "end": None,
                   "formulas": [[[1, 1, 1], formula]] if formula is not None else [],
                   "default": default, "neutral": False})
        return len(vs) - 1

    inp = var(None, default=rng.randint(0, 3))
    if shape == "chain":
        w = var(None)
        vs[w]["formulas"] = [[[1, 1, 1], ["bin", "add", ["dep", w, "last_month", "plain"], ["const", k]]]]
        var(["bin", "add", ["dep", w, "same", "plain"], ["dep", inp, "same", "plain"]])
    elif shape == "mutual":
        a = var(None)
        b = var(None)
        vs[a]["formulas"] = [[[1, 1, 1], ["bin", "add", ["dep", b, "same", "plain"], ["const", 1]]]]
        vs[b]["formulas"] = [[[1, 1, 1], ["bin", "add", ["dep", a, "last_month", "plain"], ["const", k]]]]
        var(["bin", "mul", ["const", 2], ["dep", a, "same", "plain"]])
    elif shape == "diamond":
        w = var(None)
        vs[w]["formulas"] = [[[1, 1, 1], ["bin", "add", ["dep", w, ["offset", -1], "plain"], ["const", k]]]]
        r1 = var(["bin", "add", ["dep", w, "same", "plain"], ["const", 1]])
        r2 = var(["bin", "mul", ["const", 3], ["dep", w, "last_month", "plain"]])
        var(["bin", "add", ["dep", r1, "same", "plain"], ["dep", r2, "same", "plain"]])
    elif shape == "f1":
        # A = V + C ; C = 10 * W ; V = W + 1 ; W = V@last_month + 1   (the F1 shape)
        a, c, v, w = var(None), var(None), var(None), var(None)
        vs[a]["formulas"] = [[[1, 1, 1], ["bin", "add", ["dep", v, "same", "plain"], ["dep", c, "same", "plain"]]]]
        vs[c]["formulas"] = [[[1, 1, 1], ["bin", "mul", ["const", 10], ["dep", w, "same", "plain"]]]]
        vs[v]["formulas"] = [[[1, 1, 1], ["bin", "add", ["dep", w, "same", "plain"], ["const", 1]]]]
        vs[w]["formulas"] = [[[1, 1, 1], ["bin", "add", ["dep", v, "last_month", "plain"], ["const", k]]]]
    else:
        w1, w2 = var(None), var(None)
        vs[w1]["formulas"] = [[[1, 1, 1], ["bin", "add", ["dep", w1, "last_month", "plain"], ["dep", w2, "same", "plain"]]]]
        vs[w2]["formulas"] = [[[1, 1, 1], ["bin", "add", ["dep", w2, ["offset", -2], "plain"], ["const", k]]]]
        var(["bin", "add", ["dep", w1, "same", "plain"], ["dep", w2, "last_month", "plain"]])
    if rng.random() < 0.4:
        # an extra random reader
        j = rng.randrange(1, len(vs))
        var(["where", ["bin", "lt", ["dep", j, "same", "plain"], ["const", rng.randint(0, 6)]],
             ["dep", j, "last_month", "plain"], ["const", 7]])
    sys = {"vars": vs, "params": [], "switches": [], "max_loops": L}
    pop = rules.gen_pop(rng, 3)
    n = len(pop["ids"])
    reqs = []
    year = 2019
    for _ in range(rng.randint(0, 2)):
        j = rng.randrange(len(vs))
        reqs.append(["set", j, ["month", [year, rng.randint(1, 12), 1], 1], [rng.randint(0, 9) for _ in range(n)]])
    for _ in range(rng.randint(2, 6)):
        j = rng.randrange(len(vs))
        reqs.append(["calc", j, ["month", [year, rng.randint(1, 12), 1], 1]])
    return {"sys": sys, "pop": pop, "cfg": {}, "requests": reqs, "stream": "spiral:" + shape}


def ranked_case(rng):
    c = rules.gen_case(rng, RANKED)
    c["stream"] = "ranked"
    reqs = c["requests"]
    sets = [r for r in reqs if r[0] == "set"]
    calcs = [r for r in reqs if r[0] in ("calc", "add", "div")]
    c["requests"] = sets + calcs          # fixed inputs first, then calculations only
    perm = list(range(len(calcs)))
    rng.shuffle(perm)
    c["perm"] = perm
    return c


def generate(rng, tier):
    n = {"quick": 800, "escalated": 1200, "thorough": 5000}[tier]
    cases = []
    for k in range(n):
        cases.append(spiral_case(rng) if k % 2 else ranked_case(rng))
    for k in range(max(72, n // 10)):
        cases.append(c02_special.gen(rng, k))     # special values / long daily histories (oracle only)
    return cases


# ---- implementation driver ------------------------------------------------------------------

def _plain(case):
    return {k: case[k] for k in ("sys", "pop", "cfg", "requests")}


class Recorder:
    """Records, for every entry stored by _calculate, the readable untainted cache content
    when its computation started."""

    def __init__(self, sim, sys):
        self.sim, self.sys = sim, sys
        self.witness = {}
        orig = sim._calculate
        rec = self

        def wrapped(name, period):
            before = rec.snapshot()
            out = orig(name, period)
            i = int(name[1:]) if name.startswith("v") and name[1:].isdigit() else None
            if i is not None and i < len(sys["vars"]):
                rec.witness.setdefault((i, tuple(rules.period_key(rules.period_json(period)))), before)
            return out
        sim._calculate = wrapped

    def snapshot(self):
        tainted = {(str(n), str(p)) for (n, p) in self.sim.invalidated_caches}
        snap = {}
        for i in range(len(self.sys["vars"])):
            holder = self.sim.get_holder(f"v{i}")
            for p in holder.get_known_periods():
                if (f"v{i}", str(p)) in tainted:
                    continue
                snap[(i, tuple(rules.period_key(rules.period_json(p))))] = (p, holder.get_array(p))
        return snap


def _fresh(case, switches=None):
    sw = set(case["sys"].get("switches", []))
    tbs = rules.build_system(case["sys"], sw)
    return rules.build_simulation(tbs, case["pop"], case.get("cfg") or {}, case["sys"]), sw


def run_impl(case):
    if case.get("special"):
        return c02_special.run(case)
    main = rules.run_case(_plain(case))
    if main == "skip":
        _SKIP.add(_key(case))
        return "skip"
    extra = {}
    with warnings.catch_warnings():
        warnings.simplefilter("ignore")
        try:
            if case.get("stream") == "ranked":
                extra = _order_runs(case)
            else:
                extra = _retained_runs(case)
        except rules.Inexact:
            _SKIP.add(_key(case))
            return "skip"
    return {"main": main, "extra": extra}


def _answer(sim, sys, sw, r):
    try:
        return rules.do_request(sim, sys, sw, r)
    except rules.Inexact:
        raise
    except Exception as e:  # noqa: BLE001
        return Err(rules.errkind(e), str(e)[:100])


def _order_runs(case):
    sys = case["sys"]
    sets = [r for r in case["requests"] if r[0] == "set"]
    calcs = [r for r in case["requests"] if r[0] != "set"]
    # permuted order on one simulation
    sim, sw = _fresh(case)
    for r in sets:
        _answer(sim, sys, sw, r)
    perm_answers = {}
    for j in case["perm"]:
        perm_answers[j] = _answer(sim, sys, sw, calcs[j])
    # each request on its own fresh simulation
    fresh_answers = []
    for r in calcs:
        sim, sw = _fresh(case)
        for s in sets:
            _answer(sim, sys, sw, s)
        fresh_answers.append(_answer(sim, sys, sw, r))
    return {"perm": [perm_answers[j] for j in range(len(calcs))], "fresh": fresh_answers}


def _retained_runs(case):
    """After every top-level request: every NEW readable entry must be what a fresh simulation
    computes from the inputs and (some of) the other readable entries."""
    sys = case["sys"]
    sim, sw = _fresh(case)
    rec = Recorder(sim, sys)
    problems = []
    input_keys = set()
    for k, r in enumerate(case["requests"]):
        before = rec.snapshot()
        _answer(sim, sys, sw, r)
        after = rec.snapshot()
        if r[0] == "set":
            input_keys |= set(after) - set(before)
            continue
        for key in sorted(set(after) - set(before)):
            period, value = after[key]
            wit = rec.witness.get(key)
            candidates = []
            if wit is not None:
                candidates.append(("witness", {q: after[q] for q in wit if q in after and q != key}))
                if any(q not in after for q in wit):
                    candidates.append(("witness-lost", None))
            candidates.append(("inputs", {q: after[q] for q in input_keys if q in after and q != key}))
            candidates.append(("all", {q: after[q] for q in after if q != key}))
            ok, tried = False, []
            for label, seed in candidates:
                if seed is None:
                    tried.append(label)
                    continue
                fs, fsw = _fresh(case)
                for (i, _pk), (p, arr) in seed.items():
                    fs.get_holder(f"v{i}").put_in_cache(numpy.array(arr), p)
                try:
                    got = fs.calculate(f"v{key[0]}", period)
                    same = numpy.array_equal(numpy.asarray(got), numpy.asarray(value))
                except Exception as e:  # noqa: BLE001
                    same, got = False, f"{type(e).__name__}"
                tried.append(label)
                if same:
                    ok = True
                    break
            if not ok:
                problems.append({"after_request": k, "entry": [key[0], list(key[1])],
                                 "kept": rules.ints(value), "tried": tried})
    return {"retained_problems": problems}


def coq_case(case):
    if case.get("special"):
        return "CSkip"
    return rules.coq_case(_plain(case), skip=_key(case) in _SKIP)


def obs_for_coq(case, obs):
    if case.get("special"):
        return "skip"
    if obs == "skip" or isinstance(obs, Err):
        return obs
    return obs["main"]


def oracle(case, obs):
    if case.get("special"):
        if isinstance(obs, Err):
            return f"special: the driver failed: {obs.msg}"
        if obs["stack"] != 0:
            return "stack: evaluation stack not empty after the requests"
        return ("special: " + "; ".join(obs["special"][:2])) if obs["special"] else None
    if obs == "skip" or isinstance(obs, Err):
        return None
    main, extra = obs["main"], obs["extra"]
    for k, (a, depth, _c) in enumerate(main):
        if depth != 0:
            return f"stack: evaluation stack not empty after request {k}"
    if case.get("stream") == "ranked":
        nset = sum(1 for r in case["requests"] if r[0] == "set")
        given = [o[0] for o in main[nset:]]
        for j, (g, p, f) in enumerate(zip(given, extra["perm"], extra["fresh"])):
            if g != p:
                return (f"order: request {case['requests'][nset + j]} returns {g} in the given order and {p} "
                        f"when the requests are made in order {case['perm']}")
            if g != f:
                return (f"fresh: request {case['requests'][nset + j]} returns {g} after the earlier requests and {f} "
                        "on a fresh simulation with the same inputs")
    else:
        pr = extra.get("retained_problems") or []
        if pr:
            return f"retained: entry {pr[0]['entry']} = {pr[0]['kept']} kept after request {pr[0]['after_request']} " \
                   f"is not what a fresh simulation computes from the inputs and other readable values (tried {pr[0]['tried']})"
    return None


def nontrivial(case, obs):
    if case.get("special"):
        return not isinstance(obs, Err) and obs["ran"] > 0
    return obs != "skip" and not isinstance(obs, Err) and any(len(o[2]) > 0 for o in obs["main"])


def classify(case, obs):
    if case.get("special"):
        return "special:" + case["special"]
    if obs == "skip":
        return "skipped-inexact"
    if isinstance(obs, Err):
        return "driver-error"
    return case.get("stream", "?")


def neighbours(case, rng):
    if case.get("special"):
        return [c02_special.gen(rng, 1 if case["special"] == "values" else 12) for _ in range(6)]
    out = []
    for _ in range(6):
        out.append(spiral_case(rng) if case.get("stream", "").startswith("spiral") else ranked_case(rng))
    return out


def _late_start(x):
    """does the JSON value mention a month/year period starting after the 28th (whose end is clipped)?"""
    if isinstance(x, list):
        if len(x) == 3 and isinstance(x[0], str) and x[0] in ("month", "year") and isinstance(x[1], list) \
                and len(x[1]) == 3 and all(isinstance(t, int) for t in x[1]) and x[1][2] > 28:
            return True
        return any(_late_start(y) for y in x)
    if isinstance(x, dict):
        return any(_late_start(y) for y in x.values())
    return False


def known(case, obs, msg):
    # F31 (open): the purge deletes with Period.contains; a mark on a month period starting on
    # day 29-31 also covers other stored periods of that variable whose (clipped) end is the same
    if msg.startswith("retained:") and _late_start(case):
        return "purge-contains-clipped-period"
    # F33 (open): an ETERNITY variable with a formula keeps one cache slot for all periods
    if (msg.startswith("order:") or msg.startswith("fresh:")) and any(
            v["unit"] == "eternity" and v["formulas"] for v in case["sys"]["vars"]):
        return "eternal-variable-period-dependent-formula"
    return None
