"""C08 - tax scales compute their mathematical definition for every base.

One case = one operation of one scale on a vector of bases.  The scale is given as its
add_bracket calls (in call order), so insertion/merging is exercised everywhere.  The
implementation driver runs the real classes of openfisca_core.taxscales; decisions
(bracket indices, picked rates / thresholds / amounts) are compared exactly with the Coq
model, real-valued amounts exactly when every intermediate is a binary64 number and on a
10^-6 grid otherwise (see corr/Corr_C08.v); the oracle compares every amount with the naive
mathematical definition (Fraction arithmetic, eps = 0) with relative tolerance 1e-9 and
the vector result with the base-by-base results.
"""
from __future__ import annotations

import itertools
from fractions import Fraction as F

import numpy

from openfisca_core import taxscales

import scalelib as L
from common import Err, cbool, clist, cz
from scalelib import fr, enc

PROP = "C08"
COQ_HEADER = "From Verif Require Import Scale Corr_C08."
COQ_RUN = "Corr_C08.run"
SHARD = 500
ANCHORS = ["openfisca_core/taxscales/marginal_rate_tax_scale.py",
           "openfisca_core/taxscales/rate_tax_scale_like.py",
           "openfisca_core/taxscales/marginal_amount_tax_scale.py",
           "openfisca_core/taxscales/single_amount_tax_scale.py",
           "openfisca_core/taxscales/linear_average_rate_tax_scale.py",
           "openfisca_core/taxscales/amount_tax_scale_like.py"]
RULE = ("one operation (add_bracket result, bracket_indices, marginal_rates, rate_from_tax_base, "
        "threshold_from_tax_base, calc of the four scale classes) of a scale of 0..8 brackets given by its "
        "add_bracket calls (sorted / reversed / shuffled / with repeated thresholds; every permutation of the "
        "calls for scales of <= 5 brackets) on a vector of bases made of every (scaled) threshold, its two "
        "neighbours at 1/8, a base below the first and above the last threshold, 0 and random dyadic bases; "
        "thresholds are multiples of 1/8 including 0 and negatives (or powers of two, where the shifted "
        "computation is exact in binary64), rates/amounts dyadic; options: factor, round decimals, base dtype "
        "int64/float32/float64, right; a case is non-trivial when scale and base vector are non-empty and the "
        "operation returns values; distinct as (operation, calls, bases, options); plus sequences on ONE scale "
        "object (operation, then add_bracket / multiply_thresholds / multiply_rates in place / scale_tax_scales, "
        "then operations again: every definition must hold after every step on the brackets the object then "
        "reports, and the model is run on those brackets), and a few scales of 129..300 brackets with bases "
        "around the 128th / 256th threshold and above all thresholds; plus a scale / special-values stream: "
        "base vectors of 65536..200000 elements (a short pattern repeated; whole result compared with the "
        "pattern alone, ~45 sampled positions incl. first/last/around 65536 and 131072 with the base alone and "
        "the definition), and scales/bases at 2^24, 2^24+1, 2^31, 1e9+0.5, 1000000.01, 2^40, 1e15, 2^-20, 1e-9")
TRUSTED = ["numpy (tile/outer/minimum/maximum/dot/digitize/round) is modelled by list functions in coq/model/Scale.v, covered by the correspondence only",
           "the float addition factor + numpy.finfo(float).eps is evaluated by the harness with numpy and handed to the model as its eps (2^-52 for factor in [1,2), 0 when absorbed)",
           "harness/scalelib.py decides from the inputs (Fraction arithmetic) whether a real-valued result is compared exactly, on a 10^-6 grid, or only by the oracle"]
ASSUMPTIONS = ["binary64 rounding is not modelled: amounts equal the model's rational exactly only when every intermediate is representable (checked per base), otherwise they are compared on a 10^-6 grid with the model and within 1e-9 relative with the definition; the eps = 0 definition is claimed up to the code's threshold shift: an absolute slack of sum|rate_i| * 2^-49 * (largest |threshold| or |base|) is allowed (matters only for thresholds >= 2^20)",
               "a base equal to a positive threshold is in the lower bracket (eps shift, factor 1); on a scaled positive threshold (factor != 1) either neighbour is accepted; bases below the first threshold and linear-average bases beyond the last threshold are modelled and compared but not claimed",
               "the wide (> 65536 bases) cases and the special-value cases of the rate scales are checked by the oracle only (the model receives an empty sequence); special-value cases of the amount scales are ordinary cases",
               "factor >= 0; ordinary inputs |x| < 2^16 multiples of 1/8 (exactly representable in float32/float64); rounding options are compared with the model, no statement is claimed for them"]

KINDS = {"mr": taxscales.MarginalRateTaxScale, "ma": taxscales.MarginalAmountTaxScale,
         "sa": taxscales.SingleAmountTaxScale, "la": taxscales.LinearAverageRateTaxScale}
DTYPES = {"f8": numpy.float64, "f4": numpy.float32, "i8": numpy.int64}
EXACT_OPS = ("indices", "mrates", "rate_from", "thr_from", "calc_ma", "calc_sa")


# ---- implementation driver ---------------------------------------------------------------

def mk_scale(c):
    s = KINDS[c["kind"]]()
    for t, v in c["calls"]:
        s.add_bracket(L.pynum(fr(t), c.get("ints", False)), L.pynum(fr(v), c.get("ints", False)))
    return s


def raw(c, s, arr):
    """The operation's numpy result."""
    op = c["op"]
    factor = float(fr(c.get("factor", "1")))
    rd = c.get("round")
    if op == "indices":
        return s.bracket_indices(arr, factor, rd)
    if op == "mrates":
        return s.marginal_rates(arr, factor, rd)
    if op == "rate_from":
        return s.rate_from_tax_base(arr)
    if op == "thr_from":
        return s.threshold_from_tax_base(arr)
    if op == "calc_mr":
        return s.calc(arr, factor, rd)
    if op in ("calc_ma", "calc_la"):
        return s.calc(arr)
    if op == "calc_sa":
        return s.calc(arr, right=c["right"])
    raise ValueError(op)


def call(c, s, arr):
    out = raw(c, s, arr)
    if c["op"] == "indices":
        return [int(i) for i in out]
    return [L.tofr(x) for x in out]


def state_of(c, s):
    vals = s.rates if c["kind"] in ("mr", "la") else s.amounts
    return {"thresholds": [L.tofr(x) for x in s.thresholds], "values": [L.tofr(x) for x in vals]}


def observe(c, s):
    """One operation on the (already built) scale object s: whole vector, base by base,
    and the brackets the object reports afterwards."""
    dt = DTYPES[c["dtype"]]
    arr = numpy.array([float(fr(b)) for b in c["bases"]]).astype(dt)
    vec = call(c, s, arr)
    single = []
    for k in range(len(c["bases"])):
        single.append(call(c, s, arr[k:k + 1])[0])
    # the scale itself must not be altered by a computation
    return {"vec": vec, "single": single, "after": state_of(c, s)}


def run_seq(c):
    """Operations and in-place transformations on ONE scale object."""
    s = mk_scale(c)
    ints = c.get("ints", False)
    out = []
    for st in c["steps"]:
        do = st["do"]
        if do == "obs":
            out.append(observe(st["case"], s))
            continue
        if do == "add":
            s.add_bracket(L.pynum(fr(st["t"]), ints), L.pynum(fr(st["v"]), ints))
            out.append({"state": state_of(c, s)})
        elif do == "mul_thr":
            s.multiply_thresholds(float(fr(st["f"])))
            out.append({"state": state_of(c, s)})
        elif do == "mul_rates":
            s.multiply_rates(float(fr(st["f"])))
            out.append({"state": state_of(c, s)})
        elif do == "scaled":
            old = s
            s = old.scale_tax_scales(float(fr(st["f"])))
            out.append({"state": state_of(c, s), "old_state": state_of(c, old)})
        else:
            raise ValueError(do)
    return out


def wide_bases(c):
    """The base vector of a wide case: the pattern repeated up to n elements."""
    inner = c["inner"]
    pat = numpy.array([float(fr(b)) for b in inner["bases"]]).astype(DTYPES[inner["dtype"]])
    return pat, numpy.resize(pat, c["n"])


def run_wide(c):
    """One operation on a vector of n > 65536 bases (a short pattern repeated): the whole
    result is compared with the result for the pattern alone, sampled positions with the
    operation on that base alone."""
    inner = c["inner"]
    s = mk_scale(inner)
    pat, arr = wide_bases(c)
    full = numpy.asarray(raw(inner, s, arr))
    small = numpy.asarray(raw(inner, s, pat))
    first_diff = None
    if full.shape == arr.shape:
        tiled = numpy.resize(small, c["n"])
        if inner["op"] in EXACT_OPS:
            bad = full != tiled
        else:
            bad = ~numpy.isclose(full, tiled, rtol=1e-9, atol=1e-9)
        if bad.any():
            k = int(numpy.argmax(bad))
            first_diff = [k, L.tofr(full[k]), L.tofr(tiled[k])]
    pos = [p for p in c["sample"] if p < min(len(full), c["n"])]
    conv = (lambda x: int(x)) if inner["op"] == "indices" else L.tofr
    return {"n_out": int(full.shape[0]) if full.ndim else -1, "first_diff": first_diff, "pos": pos,
            "vec": [conv(full[p]) for p in pos],
            "single": [call(inner, s, arr[p:p + 1])[0] for p in pos],
            "after": state_of(inner, s)}


def run_impl(c):
    if c["op"] == "seq":
        return run_seq(c)
    if c["op"] == "wide":
        return run_wide(c)
    if c["op"] == "oo":
        return observe(c["inner"], mk_scale(c["inner"]))
    s = mk_scale(c)
    if c["op"] == "build":
        return state_of(c, s)
    return observe(c, s)


def apply_step(calls, st):
    """The add_bracket calls equivalent to the object's brackets after a transforming step
    (reference, Fraction arithmetic)."""
    do = st["do"]
    if do == "add":
        return calls + [[st["t"], st["v"]]]
    f = fr(st["f"])
    br = L.ref_build(calls)
    if do in ("mul_thr", "scaled"):
        return [[enc(t * f), enc(v)] for t, v in br]
    if do == "mul_rates":
        return [[enc(t), enc(v * f)] for t, v in br]
    raise ValueError(do)


# ---- Coq side ------------------------------------------------------------------------------

def coq_case(c):
    op = c["op"]
    if op in ("wide", "oo"):
        return "(KSeq [])"               # oracle only: nothing for the model to reproduce
    calls = L.ccalls(c["calls"])
    if op == "build":
        return f"(KBuild {calls})"
    if op == "seq":
        return "(KSeq " + clist([coq_case(st["case"]) for st in c["steps"] if st["do"] == "obs"]) + ")"
    bases = L.cqs(c["bases"])
    eps = L.cq(fr(c.get("eps", "0")))
    factor = L.cq(fr(c.get("factor", "1")))
    rd = L.cround(c.get("round"))
    if op == "indices":
        return f"(KIndices {eps} {factor} {rd} {calls} {bases})"
    if op == "mrates":
        return f"(KMarginalRates {eps} {factor} {rd} {calls} {bases})"
    if op == "rate_from":
        return f"(KRateFrom {eps} {calls} {bases})"
    if op == "thr_from":
        return f"(KThresholdFrom {eps} {calls} {bases})"
    if op == "calc_mr":
        return f"(KCalcMR {eps} {factor} {rd} {calls} {bases} {L.czs(c['modes'])})"
    if op == "calc_ma":
        return f"(KCalcMA {calls} {bases})"
    if op == "calc_sa":
        return f"(KCalcSA {cbool(c['right'])} {calls} {bases})"
    if op == "calc_la":
        return f"(KCalcLA {calls} {bases} {L.czs(c['modes'])})"
    raise ValueError(op)


def obs_for_coq(c, o):
    if isinstance(o, Err):
        return o
    if c["op"] == "build":
        return [o["thresholds"], o["values"]]
    if c["op"] in ("wide", "oo"):
        return []
    if c["op"] == "seq":
        return [obs_for_coq(st["case"], ok) for st, ok in zip(c["steps"], o) if st["do"] == "obs"]
    if c["op"] in ("calc_mr", "calc_la"):
        return L.project(c["modes"], o["vec"])
    return o["vec"]


# ---- oracle: the statement of C08 on the implementation's answers ------------------------------

def describe_steps(c, upto):
    out = []
    for st in c["steps"][:upto + 1]:
        if st["do"] == "obs":
            out.append(f"{st['case']['op']}({len(st['case']['bases'])} bases)")
        elif st["do"] == "add":
            out.append(f"add_bracket({st['t']}, {st['v']})")
        else:
            out.append(f"{st['do']}({st['f']})")
    return " -> ".join(out)


def same_state(state, br):
    return state["thresholds"] == [t for t, _ in br] and len(state["values"]) == len(br) and all(
        L.close(g, v) for (_, v), g in zip(br, state["values"]))


def oracle_seq(c, o):
    """Every definition must hold after every step, on the brackets the object then has."""
    if isinstance(o, Err):
        return f"sequence: raised {o.kind} ({o.msg[:80]}) on {c['calls']} / {describe_steps(c, len(c['steps']))}"
    cur = [list(x) for x in c["calls"]]
    for k, (st, ok) in enumerate(zip(c["steps"], o)):
        if st["do"] == "obs":
            m = oracle(dict(st["case"], calls=cur), ok)
            if m:
                return f"{m} [same scale object, built by {c['calls']}, after: {describe_steps(c, k)}]"
            continue
        prev = L.ref_build(cur)
        cur = apply_step(cur, st)
        br = L.ref_build(cur)
        if not same_state(ok["state"], br):
            return (f"sequence: after {describe_steps(c, k)} on {c['calls']} the scale reports {ok['state']}, "
                    f"expected brackets {br}")
        if "old_state" in ok and not same_state(ok["old_state"], prev):
            return (f"sequence: {describe_steps(c, k)} on {c['calls']} altered the original scale: "
                    f"{ok['old_state']}, expected {prev}")
    return None


def oracle_wide(c, o):
    inner = c["inner"]
    n, P = c["n"], len(inner["bases"])
    if isinstance(o, Err):
        return f"vector: {inner['op']} on {n} bases raised {o.kind} ({o.msg[:80]}) on {inner['calls']}"
    if o["n_out"] != n:
        return f"vector: {inner['op']} returned {o['n_out']} values for {n} bases ({inner['calls']})"
    if o["first_diff"] is not None:
        k, v, w = o["first_diff"]
        return (f"vector: {inner['op']} gives {float(v)!r} at position {k} (base {inner['bases'][k % P]}) of a vector of "
                f"{n} bases (pattern {inner['bases']} repeated) and {float(w)!r} for the same base in the pattern alone "
                f"({inner['calls']})")
    sub = dict(inner, bases=[inner["bases"][p % P] for p in o["pos"]])
    m = oracle(sub, o)
    return f"{m} [positions {o['pos']} of {n} bases, pattern {inner['bases']} repeated]" if m else None


def oracle(c, o):
    op = c["op"]
    if op == "seq":
        return oracle_seq(c, o)
    if op == "wide":
        return oracle_wide(c, o)
    if op == "oo":
        return oracle(c["inner"], o)
    br = L.ref_build(c["calls"])
    if isinstance(o, Err):
        if op == "build" or (br and c["bases"]):
            return f"{op}: raised {o.kind} ({o.msg[:80]}) on {c}"
        return None
    if op == "build":
        # the scale is the finite map threshold -> sum of the values added at it, sorted:
        # a function of the multiset of calls, hence independent of their order
        if o["thresholds"] != [t for t, _ in br]:
            return f"build: thresholds {o['thresholds']} are not the sorted distinct thresholds of the calls {c['calls']}"
        for (t, v), g in zip(br, o["values"]):
            if not L.close(g, v):
                return f"build: value at threshold {t} is {g}, the calls add up to {v} ({c['calls']})"
        return None
    if o["after"]["thresholds"] != [t for t, _ in br] or any(
            not L.close(g, v) for (_, v), g in zip(br, o["after"]["values"])):
        return f"{op}: the computation altered the scale: {o['after']}"
    bases = [fr(b) for b in c["bases"]]
    factor = fr(c.get("factor", "1"))
    rd = c.get("round")
    exact_ops = op in EXACT_OPS
    # a vector of bases gives the same values as each base alone
    for k, (v, s1) in enumerate(zip(o["vec"], o["single"])):
        same = (v == s1) if exact_ops else L.close(F(v), F(s1))
        if not same:
            return f"vector: {op} gives {v} for base {bases[k]} inside the vector {c['bases']} and {s1} alone ({c['calls']})"
    if len(o["vec"]) != len(bases):
        return f"vector: {op} returned {len(o['vec'])} values for {len(bases)} bases"
    if rd is not None:
        return None                      # rounding options: compared with the model only
    for b, v in zip(bases, o["vec"]):
        if op in ("indices", "mrates", "rate_from", "thr_from"):
            cands = L.def_bracket_candidates(br, b, factor)
            if not cands:
                continue
            if op == "indices":
                ok = v in cands
            elif op == "thr_from":
                ok = any(v == br[k][0] for k in cands)
            else:
                ok = any(L.close(v, br[k][1]) for k in cands)
            if not ok:
                return (f"bracket: {op} reports {v} for base {b} (factor {factor}); the bracket containing it is "
                        f"{sorted(cands)} of {br}")
        elif op == "calc_mr":
            e = L.def_marginal_rate(br, b, factor)
            # the eps = 0 definition is claimed up to the code's threshold shift t * (factor + 2^-52)
            # and the binary64 rounding of the operands: a few ulps of the largest threshold / base
            # per bracket, weighted by the rates
            big = max([abs(b)] + [abs(t * factor) for t, _ in br] + [abs(t) for t, _ in br])
            slack = sum((abs(r) for _, r in br), F(0)) * big * F(1, 2**49)
            if not L.close(v, e) and abs(F(v) - e) > slack:
                return f"marginal_rate: calc({b}, factor={factor}) = {float(v)!r}, definition gives {e} = {float(e)!r} on {br}"
        elif op == "calc_ma":
            e = L.def_marginal_amount(br, b)
            if not L.close(v, e):
                return f"marginal_amount: calc({b}) = {v}, sum of amounts of thresholds below the base is {e} on {br}"
        elif op == "calc_sa":
            e = L.def_single_amount(br, b, c["right"])
            if not L.close(v, e):
                return f"single_amount: calc({b}, right={c['right']}) = {v}, amount of the containing bracket is {e} on {br}"
        elif op == "calc_la":
            e = L.def_linear_average(br, b)
            big = max([abs(b)] + [abs(t) for t, _ in br])
            slack = max((abs(r) for _, r in br), default=F(0)) * big * F(1, 2**49)
            if e is not None and not L.close(v, e) and abs(F(v) - e) > slack:
                return f"linear_average: calc({b}) = {float(v)!r}, base times interpolated rate is {e} = {float(e)!r} on {br}"
    return None


def nontrivial(c, o):
    if isinstance(o, Err):
        return False
    if c["op"] == "build":
        return len(c["calls"]) >= 1
    if c["op"] in ("wide", "oo"):
        return len(c["inner"]["calls"]) >= 1 and len(c["inner"]["bases"]) >= 1
    if c["op"] == "seq":
        return sum(1 for st in c["steps"] if st["do"] == "obs" and st["case"]["bases"]) >= 2
    return len(c["calls"]) >= 1 and len(c["bases"]) >= 1


def classify(c, o):
    if c["op"] in ("wide", "oo"):
        tag = f"{c['op']}:{c['inner']['op']}:{c['kind']}" + (f":n={c['n']}" if c["op"] == "wide" else "")
        return tag + (":" + o.kind if isinstance(o, Err) else "")
    if c["op"] == "seq":
        tag = f"seq:{c['kind']}:" + ",".join(st["do"] if st["do"] != "obs" else st["case"]["op"] for st in c["steps"])
        return tag + (":" + o.kind if isinstance(o, Err) else "")
    n = len(L.ref_build(c["calls"]))
    if n > 64:
        n = ">64"
    tag = f"{c['op']}:{c['kind']}:n={n}"
    if c["op"] != "build":
        if fr(c.get("factor", "1")) != 1:
            tag += ":factor"
        if c.get("round") is not None:
            tag += ":round"
        tag += ":" + c["dtype"]
        if "modes" in c:
            tag += ":modes=" + "".join(sorted({str(m) for m in c["modes"]}))
    if isinstance(o, Err):
        tag += ":" + o.kind
    return tag


# ---- generation -----------------------------------------------------------------------------

RATES = [F(k, 8) for k in range(0, 9)]
RATES_W = RATES + [F(0), F(1, 4), F(1, 2), F(-1, 8), F(-1, 2), F(5, 4), F(2)]
AMOUNTS = [F(k, 4) for k in range(0, 41)] + [F(100), F(-3, 2), F(0)]
FACTORS = [F(2), F(1, 2), F(3, 2), F(3), F(1, 4), F(5, 4), F(4), F(0)]
POW2 = [F(2) ** k for k in range(-2, 13)]


def gen_thresholds(rng, n, style):
    if style == "pow2":
        # consecutive powers of two (optionally mirrored below 0, optionally 0):
        # differences of shifted thresholds stay representable
        k0 = rng.randrange(0, len(POW2) - 1)
        pos = POW2[k0:k0 + n]
        out = list(pos)
        if rng.random() < 0.6:
            out = [F(0)] + out
        if rng.random() < 0.3:
            out = [-p for p in POW2[k0:k0 + rng.randrange(1, 3)]][::-1] + out
        while len(out) > n:
            out.pop(rng.randrange(len(out)) if rng.random() < 0.3 else -1)
        return sorted(set(out))
    if style == "ints":
        pool = list(range(-3, 12)) + [0, 0, 100, 200, 1000]
        return sorted({F(x) for x in rng.sample(pool, min(n, len(pool)))})
    pool = [F(k, 8) for k in range(-8 * 24, 8 * 160)]
    out = {rng.choice(pool) if rng.random() < 0.5 else F(rng.randrange(-20, 300)) for _ in range(n)}
    if rng.random() < 0.55:
        out.add(F(0))
    out = sorted(out)
    while len(out) > n:
        out.pop(rng.randrange(len(out)))
    return out


def gen_calls(rng, ths, kind):
    pool = AMOUNTS if kind in ("ma", "sa") else (RATES if rng.random() < 0.7 else RATES_W)
    br = [(t, rng.choice(pool)) for t in ths]
    calls = list(br)
    r = rng.random()
    if r < 0.25:
        pass                                    # sorted
    elif r < 0.4:
        calls.reverse()
    else:
        rng.shuffle(calls)
    if calls and rng.random() < 0.25:
        # the same threshold added twice (merge): split one value in two calls
        k = rng.randrange(len(calls))
        t, v = calls[k]
        part = rng.choice(pool)
        calls[k] = (t, v - part)
        calls.insert(rng.randrange(len(calls) + 1), (t, part))
    return [[enc(t), enc(v)] for t, v in calls]


def gen_bases(rng, ths, factor, dtype, nmax=14):
    cand = []
    for t in ths:
        x = t * factor
        cand += [x, x - F(1, 8), x + F(1, 8)]
    if ths:
        cand += [ths[0] * factor - 1, ths[0] * factor - F(33, 8), ths[-1] * factor + 10, ths[-1] * factor * 2 + 1]
    cand += [F(0), F(rng.randrange(-80, 2400), 8), F(rng.randrange(-10, 300)), F(rng.randrange(0, 40000), 8)]
    if dtype == "i8":
        cand = [F(int(x // 1)) for x in cand] + [F(int(t * factor // 1)) for t in ths]
    cand = [x for x in cand if abs(x) < 2**16 and (dtype != "f4" or L.representable32(x))]
    seen, out = set(), []
    for x in cand:
        if x not in seen:
            seen.add(x)
            out.append(x)
    if len(out) > nmax:
        # keep the on-threshold bases preferentially
        on = [x for x in out if any(x == t * factor for t in ths)]
        rest = [x for x in out if x not in on]
        rng.shuffle(rest)
        out = (on + rest)[:nmax]
    rng.shuffle(out)
    return out


def with_modes(c):
    """Decide per base how the real-valued result is compared with the model."""
    br = L.ref_build(c["calls"])
    bases = [fr(b) for b in c["bases"]]
    modes = []
    if not L.build_sums_exact(c["calls"]):
        c["modes"] = [2] * len(bases)
        return c
    if c["op"] == "calc_mr":
        eps, factor, rd = fr(c["eps"]), fr(c["factor"]), c.get("round")
        for b in bases:
            v, exact, risky = L.ref_calc_mr(eps, factor, rd, br, b)
            modes.append(L.mode_of(v, exact, risky))
    else:
        for b in bases:
            v, exact = L.ref_calc_la(br, b, f32_single=(c["dtype"] == "f4"))
            modes.append(L.mode_of(v, exact, False))
    c["modes"] = modes
    return c


def scale_cases(rng, kind, calls, ints):
    """The operations run on one scale."""
    ths = [t for t, _ in L.ref_build(calls)]
    out = []
    base = {"kind": kind, "calls": calls, "ints": ints}

    def opts(allow_factor, allow_round):
        dtype = rng.choice(["f8", "f8", "f8", "f4", "i8"])
        factor = rng.choice(FACTORS) if allow_factor and rng.random() < 0.3 else F(1)
        rd = rng.choice([0, 0, 1, 2]) if allow_round and rng.random() < 0.2 else None
        bases = gen_bases(rng, ths, factor, dtype)
        d = dict(base, dtype=dtype, factor=enc(factor), eps=enc(L.eff_eps(factor)), bases=[enc(b) for b in bases])
        d["round"] = rd
        if rd is not None:
            # rounding decisions that could fall differently in binary64: drop the option
            br = L.ref_build(calls)
            if any(L.ref_indices(fr(d["eps"]), factor, rd, br, b)[1] for b in bases):
                d["round"] = None
        return d

    if kind == "mr":
        out.append(with_modes(dict(opts(True, True), op="calc_mr")))
        out.append(dict(opts(True, True), op="indices"))
        out.append(dict(opts(True, True), op="mrates"))
        if rng.random() < 0.5:
            out.append(dict(opts(False, False), op=rng.choice(["rate_from", "thr_from"])))
    elif kind == "ma":
        out.append(dict(opts(False, False), op="calc_ma"))
    elif kind == "sa":
        out.append(dict(opts(False, False), op="calc_sa", right=False))
        out.append(dict(opts(False, False), op="calc_sa", right=True))
    else:
        out.append(with_modes(dict(opts(False, False), op="calc_la")))
        if rng.random() < 0.5:
            out.append(dict(opts(True, True), op="indices"))
        if rng.random() < 0.3:
            out.append(dict(opts(False, False), op="thr_from"))
    if rng.random() < 0.3:
        out.append(dict(base, op="build"))
    return out


def gen_seq(rng):
    """calc / bracket_indices / marginal_rates, then add_bracket or an in-place
    transformation of the SAME object, then the operations again."""
    kind = rng.choice(["mr"] * 6 + ["la"] * 2 + ["ma", "sa"])
    n = rng.choice([1, 2, 2, 3, 3, 4, 5, 6])
    ths = gen_thresholds(rng, n, rng.choice(["dyadic", "dyadic", "pow2", "ints"]))
    calls = gen_calls(rng, ths, kind)
    ints = rng.random() < 0.4
    pool = AMOUNTS if kind in ("ma", "sa") else RATES
    cur = [list(x) for x in calls]
    steps = []

    def obs():
        subs = [x for x in scale_cases(rng, kind, [list(x) for x in cur], ints) if x["op"] != "build"]
        if kind == "mr" and rng.random() < 0.6:
            subs = [x for x in subs if x["op"] == "calc_mr"]
        steps.append({"do": "obs", "case": rng.choice(subs)})

    obs()
    for _ in range(rng.choice([1, 1, 2, 2, 3])):
        br = L.ref_build(cur)
        top = max([abs(t) for t, _ in br] + [F(1)])
        choices = ["add", "add"]
        if kind in ("mr", "la"):
            choices += ["mul_thr", "mul_thr", "mul_thr", "mul_rates"]
        if kind == "mr":
            choices += ["scaled", "scaled"]
        do = rng.choice(choices)
        if do == "add":
            if br and rng.random() < 0.3:
                t = rng.choice(br)[0]                      # merge into an existing bracket
            else:
                t = rng.choice([F(rng.randrange(-16, 8 * 300), 8), F(rng.randrange(-3, 400)), F(0),
                                top + 1, br[0][0] - 1 if br else F(5)])
            st = {"do": "add", "t": enc(t), "v": enc(rng.choice(pool))}
        elif do == "mul_rates":
            st = {"do": "mul_rates", "f": enc(rng.choice([F(2), F(1, 2), F(3), F(1, 4)]))}
        else:
            fs = [F(1, 2), F(1, 4), F(3, 4)] + ([F(2), F(4), F(3, 2), F(100)] if top * 100 < 2**15 else
                                                [F(2), F(3, 2)] if top * 2 < 2**15 else [])
            st = {"do": do, "f": enc(rng.choice(fs))}
        cur = apply_step(cur, st)
        steps.append(st)
        obs()
        if rng.random() < 0.3:
            obs()
    return {"op": "seq", "kind": kind, "calls": calls, "ints": ints, "steps": steps}


def gen_large(rng):
    """A scale of 130..300 brackets; bases around the 128th / 256th threshold and above all."""
    n = rng.choice([129, 130, 131, 160, 200, 256, 257, 258, 300, rng.randrange(130, 301)])
    step = rng.choice([F(1), F(1, 8), F(1, 2), F(2), F(5)])
    start = rng.choice([F(0), F(0), F(-3), F(10), F(1, 8)])
    ths = [start + k * step for k in range(n)]
    kind = rng.choice(["mr", "mr", "mr", "la"])
    calls = gen_calls(rng, ths, kind)
    ints = rng.random() < 0.4
    out = []
    ops = ["calc_mr", "indices", "mrates", "rate_from", "thr_from"] if kind == "mr" else ["indices", "thr_from", "calc_la"]
    for op in ops:
        marks = [ths[k] + d for k in (1, 126, 127, 128, 129, 130, 255, 256, 257, n - 2, n - 1) if k < n
                 for d in (F(0), F(1, 16))]
        bases = [ths[-1] + 10, ths[-1] * 2 + 1, ths[-1] + F(1, 8), ths[0] - 1, F(rng.randrange(0, 8 * 1600), 8)]
        bases += rng.sample(marks, min(7, len(marks)))
        rng.shuffle(bases)
        c = {"op": op, "kind": kind, "calls": calls, "ints": ints, "bases": [enc(b) for b in bases],
             "dtype": "f8", "factor": "1", "eps": enc(L.eff_eps(F(1))), "round": None}
        if op in ("calc_mr", "calc_la"):
            c["bases"] = c["bases"][:6]
            with_modes(c)
            # the grid comparison divides rationals of ~10^4 bits in Coq: exact or oracle only
            c["modes"] = [m if m == 0 else 2 for m in c["modes"]]
        out.append(c)
    return out


def gen_wide(rng, kind):
    """An ordinary operation whose base vector is a short pattern repeated to 65536..200000
    elements (oracle only)."""
    while True:
        ths = gen_thresholds(rng, rng.choice([1, 2, 3, 4, 6]), rng.choice(["dyadic", "pow2", "ints"]))
        calls = gen_calls(rng, ths, kind)
        subs = [x for x in scale_cases(rng, kind, calls, rng.random() < 0.4) if x["op"] != "build" and len(x["bases"]) >= 3]
        if kind == "mr" and rng.random() < 0.6:
            subs = [x for x in subs if x["op"] == "calc_mr"]
        if subs:
            break
    inner = rng.choice(subs)
    inner.pop("modes", None)
    n = rng.choice([65537, 65536, 65536 + 4097, 70000, 100000, 131072, 131073, 200000, rng.randrange(65537, 200001)])
    marks = [0, 1, 2, 4095, 4096, 32767, 32768, 65535, 65536, 65537, 65536 + 4096, 99999, 131071, 131072, 131073,
             n - 3, n - 2, n - 1]
    sample = sorted({p for p in marks if 0 <= p < n} | {rng.randrange(n) for _ in range(20)}
                    | {rng.randrange(max(0, n - 70000), n) for _ in range(10)})
    return {"op": "wide", "kind": kind, "n": n, "sample": sample, "inner": inner}


def fl(x):
    """exact value of the binary64 number nearest to x"""
    return F(float(x))


SPECIAL = [   # (threshold, bases around it): pairs that float32 cannot separate, very large, very small
    (fl(2**24), [fl(2**24), fl(2**24 + 1), fl(2**24 - 1), fl(2**24 + 2)]),
    (fl(2**31), [fl(2**31 + 1), fl(2**31 - 1), fl(2**31), fl(2**32 + 5)]),
    (fl(10**9), [fl(10**9 + 0.5), fl(10**9 - 0.5), fl(10**9)]),
    (fl(1000000), [fl(1000000.01), fl(999999.99), fl(1000000)]),
    (fl(2**40), [fl(2**40 + 1), fl(2**40 - 1), fl(2**40)]),
    (fl(10**15), [fl(10**15 + 1), fl(10**15 - 1), fl(2 * 10**15)]),
    (F(1, 2**20), [F(1, 2**20), F(1, 2**20) + F(1, 2**40), F(1, 2**21), F(1, 2**30)]),
    (fl(1e-9), [fl(2e-9), fl(1e-9), fl(5e-10)]),
    (fl(33554432.5), [fl(33554433), fl(33554432.5), fl(33554432)]),
]


def gen_special(rng, kind):
    """Scales and bases with special numeric values.  Amount scales compare thresholds and
    bases only (exact in binary64): ordinary cases, run by the model too; rate scales:
    oracle only."""
    groups = rng.sample(SPECIAL, rng.choice([1, 2, 2, 3]))
    ths = sorted({g[0] for g in groups} | ({F(0)} if rng.random() < 0.5 else set())
                 | ({-g[0] for g in groups[:1]} if rng.random() < 0.2 else set()))
    pool = AMOUNTS[1:40] if kind in ("ma", "sa") else RATES[1:]
    br = [(t, rng.choice(pool)) for t in ths]
    rng.shuffle(br)
    calls = [[enc(t), enc(v)] for t, v in br]
    bases = [b for g in groups for b in g[1]] + [F(0), ths[0] - 1, ths[-1] * 2 + 1, rng.choice(ths)]
    bases = list(dict.fromkeys(bases))
    rng.shuffle(bases)
    ints = all(t.denominator == 1 for t in ths) and rng.random() < 0.5
    dtype = "i8" if all(b.denominator == 1 for b in bases) and rng.random() < 0.4 else "f8"
    c = {"kind": kind, "calls": calls, "ints": ints, "bases": [enc(b) for b in bases], "dtype": dtype,
         "factor": "1", "eps": enc(L.eff_eps(F(1))), "round": None}
    if kind == "ma":
        return dict(c, op="calc_ma")
    if kind == "sa":
        return dict(c, op="calc_sa", right=rng.random() < 0.5)
    op = rng.choice(["calc_mr", "calc_mr", "indices", "mrates", "thr_from"] if kind == "mr" else
                    ["calc_la", "calc_la", "indices", "thr_from"])
    return {"op": "oo", "kind": kind, "inner": dict(c, op=op)}


def generate(rng, tier):
    n_scales = {"quick": 3200, "escalated": 12000, "thorough": 60000}[tier]
    n_perm = {"quick": (6, 12, 20, 20), "escalated": (20, 40, 60, 40), "thorough": (80, 150, 200, 100)}[tier]
    cases = []
    for i in range(n_scales):
        kind = rng.choice(["mr"] * 10 + ["ma"] * 3 + ["sa"] * 3 + ["la"] * 4)
        n = rng.choice([1, 1, 2, 2, 3, 3, 4, 5, 6, 7, 8])
        style = rng.choice(["dyadic", "dyadic", "dyadic", "pow2", "pow2", "ints"])
        ths = gen_thresholds(rng, n, style)
        calls = gen_calls(rng, ths, kind)
        cases += scale_cases(rng, kind, calls, ints=rng.random() < 0.4)
    # every insertion order for scales of <= 5 brackets
    for n, cnt in zip((5, 4, 3, 2), n_perm):
        for _ in range(cnt):
            kind = rng.choice(["mr", "ma", "sa", "la"])
            ths = gen_thresholds(rng, n, rng.choice(["dyadic", "ints"]))
            calls = gen_calls(rng, ths, kind)
            calls.sort()
            ints = rng.random() < 0.4
            for perm in itertools.permutations(calls):
                cases.append({"op": "build", "kind": kind, "calls": [list(x) for x in perm], "ints": ints})
            # and the computed values after two different orders
            for order in (list(calls), list(reversed(calls))):
                cases += [c for c in scale_cases(rng, kind, order, ints) if c["op"] != "build"][:1]
    # stateful sequences on one scale object; a few large scales
    for _ in range({"quick": 500, "escalated": 2000, "thorough": 10000}[tier]):
        cases.append(gen_seq(rng))
    for _ in range({"quick": 8, "escalated": 20, "thorough": 60}[tier]):
        cases += gen_large(rng)
    # scale / special values: long base vectors, values float32 cannot separate, extreme magnitudes
    reps = {"quick": 1, "escalated": 3, "thorough": 10}[tier]
    for _ in range(reps):
        for kind in ("mr", "mr", "mr", "la", "ma", "sa"):
            cases.append(gen_wide(rng, kind))
        for kind in ("mr", "mr", "la", "ma", "ma", "ma", "sa", "sa") * 3:
            cases.append(gen_special(rng, kind))
    # malformed stream: empty scale, empty base vector
    for kind in KINDS:
        for op in {"mr": ["calc_mr", "indices", "mrates", "rate_from", "thr_from"], "ma": ["calc_ma"],
                   "sa": ["calc_sa"], "la": ["calc_la", "indices"]}[kind]:
            for calls, bases in (([], ["0", "5", "-1"]), ([["0", "1/2"], ["10", "1/4"]], []), ([], []),
                                 ([["3", "1/2"]], ["0", "3", "5"])):
                c = {"op": op, "kind": kind, "calls": calls, "ints": False, "bases": bases, "dtype": "f8",
                     "factor": "1", "eps": enc(L.EPS), "round": None, "right": False}
                if op in ("calc_mr", "calc_la"):
                    with_modes(c)
                cases.append(c)
        cases.append({"op": "build", "kind": kind, "calls": [], "ints": False})
    return cases


def neighbours(c, rng):
    if c["op"] in ("seq", "wide", "oo"):
        return []
    out = []
    for _ in range(40):
        c2 = dict(c)
        if c2.get("bases"):
            c2["bases"] = [enc(fr(b) + F(rng.randrange(-2, 3), 8)) for b in c2["bases"]]
            if c2.get("dtype") == "i8":
                c2["bases"] = [enc(F(int(fr(b) // 1))) for b in c2["bases"]]
        if len(c2["calls"]) > 1 and rng.random() < 0.5:
            k = rng.randrange(len(c2["calls"]))
            c2["calls"] = c2["calls"][:k] + c2["calls"][k + 1:]
        if "modes" in c2:
            with_modes(c2)
        out.append(c2)
    return out


def shrink(c, still_fails):
    """Drop bases, then brackets, while the oracle still fails."""
    if c["op"] in ("seq", "wide", "oo"):
        return None
    cur = dict(c)
    changed = True
    while changed:
        changed = False
        for key in ("bases", "calls"):
            k = 0
            while key in cur and k < len(cur[key]) and len(cur[key]) > (1 if key == "bases" else 0):
                c2 = dict(cur)
                c2[key] = cur[key][:k] + cur[key][k + 1:]
                if "modes" in c2:
                    with_modes(c2)
                if still_fails(c2):
                    cur = c2
                    changed = True
                else:
                    k += 1
    return cur if cur != c else None
