"""An independent, naive interpreter of the MEANING of a rule system (the statement of C01):
input first, else the formula in force at the period's start applied to recursively
evaluated dependencies, else the default; result cast to the declared type.  No cache, no
stack, no engine: only the period API of openfisca (this_year, get_subperiods ...) is
used, for dependency periods.  Used as the property oracle on the implementation's answers
(failing-input search); valid for rule systems without self-dependence.
"""
from __future__ import annotations

import rules
from rules import mk_period, period_json, period_key


class DenErr(Exception):
    def __init__(self, kind):
        super().__init__(kind)
        self.kind = kind


def _count(pop, ent):
    return len(pop["ids"]) if ent == "person" else pop["count"]


def _has_role(role, r):
    return role == r


def _consistent(var, pj):
    if var["unit"] == "eternity":
        return
    if var["unit"] != pj[0] or pj[2] != 1:
        raise DenErr("EValue")


def _formula_at(var, pj):
    if not var["formulas"]:
        return None
    start = pj[1]
    if start[0] < 1:
        raise DenErr("EValue")
    if var.get("end") and tuple(start) > tuple(var["end"]):
        return None
    best = None
    for s, e in var["formulas"]:
        if tuple(s) <= tuple(start):
            best = e
    return best


def _cast(var, a):
    if var["type"] == "bool":
        return [0 if z == 0 else 1 for z in a]
    return a


class Den:
    def __init__(self, sys, pop, inputs, switches=()):
        self.sys, self.pop, self.inputs, self.switches = sys, pop, inputs, set(switches)
        self.depth = 0

    def norm(self, var, pj):
        return tuple(period_key(rules.ETERNITY)) if var["unit"] == "eternity" else tuple(period_key(pj))

    def value(self, v, pj):
        vs = self.sys["vars"]
        if v >= len(vs):
            raise DenErr("ENotFound")
        var = vs[v]
        _consistent(var, pj)
        n = _count(self.pop, var["ent"])
        if var.get("neutral"):
            return [var["default"]] * n
        key = (v, self.norm(var, pj))
        if key in self.inputs:
            return list(self.inputs[key])
        e = _formula_at(var, pj)
        if e is None:
            return [var["default"]] * n
        self.depth += 1
        if self.depth > 200:
            raise DenErr("EFuel")
        try:
            return _cast(var, self.ev(e, var["ent"], pj))
        finally:
            self.depth -= 1

    # ---- requests ---------------------------------------------------------------------
    def add(self, v, pj):
        vs = self.sys["vars"]
        if v >= len(vs):
            raise DenErr("ENotFound")
        var = vs[v]
        w = {"weekday": 100, "week": 200, "day": 100, "month": 200, "year": 300, "eternity": 400}
        if w[pj[0]] < w[var["unit"]] or pj[0] == "eternity" or var["unit"] == "eternity":
            raise DenErr("EValue")
        subs = [period_json(q) for q in mk_period(pj).get_subperiods(rules.UNIT_OBJ[var["unit"]])]
        acc = None
        for q in subs:
            a = self.value(v, q)
            acc = a if acc is None else [x + y for x, y in zip(acc, a)]
        return acc if acc is not None else []

    def divide(self, v, pj):
        vs = self.sys["vars"]
        if v >= len(vs):
            raise DenErr("ENotFound")
        var = vs[v]
        w = {"weekday": 100, "week": 200, "day": 100, "month": 200, "year": 300, "eternity": 400}
        if w[var["unit"]] < w[pj[0]] or pj[2] > 1 or var["unit"] == "eternity" or pj[0] == "eternity" or pj[2] != 1:
            raise DenErr("EValue")
        p = mk_period(pj)
        cp = {"year": lambda: p.this_year, "month": lambda: p.first_month, "day": lambda: p.first_day,
              "week": lambda: p.first_week, "weekday": lambda: p.first_weekday}[var["unit"]]()
        den = rules.divide_denominator(self.sys, v, pj)
        if den is None:
            # the period API cannot count the requested unit in the definition period
            # (a cross-family cell such as months in a week): refused before any evaluation
            raise DenErr("EValue")
        return self.value(v, period_json(cp)), den

    # ---- expressions ------------------------------------------------------------------
    def dep(self, ent, v, pt, o, pj):
        if pt == "bad":
            raise DenErr("EPeriod")
        try:
            q = rules.apply_ptrans(pt, mk_period(pj))
        except Exception:  # noqa: BLE001
            raise DenErr("EOther")
        qj = period_json(q)
        vs = self.sys["vars"]
        if v >= len(vs):
            raise DenErr("ENotFound")
        if vs[v]["ent"] != ent:
            raise DenErr("EValue")
        if o == "plain":
            return self.value(v, qj)
        if o in ("both", "unknown"):
            raise DenErr("EValue")
        if o == "add":
            return self.add(v, qj)
        a, den = self.divide(v, qj)
        return [z // den for z in a]

    def ev(self, e, ent, pj):
        n = _count(self.pop, ent)
        tag = e[0]
        if tag == "const":
            return [e[1]] * n
        if tag == "dep":
            return self.dep(ent, e[1], e[2], e[3], pj)
        if tag == "bin":
            a = self.ev(e[2], ent, pj)
            b = self.ev(e[3], ent, pj)
            f = {"add": lambda x, y: x + y, "sub": lambda x, y: x - y, "mul": lambda x, y: x * y,
                 "min": min, "max": max, "lt": lambda x, y: int(x < y), "le": lambda x, y: int(x <= y),
                 "eq": lambda x, y: int(x == y), "and": lambda x, y: int(x != 0 and y != 0),
                 "or": lambda x, y: int(x != 0 or y != 0)}[e[1]]
            return [f(x, y) for x, y in zip(a, b)]
        if tag == "not":
            return [int(x == 0) for x in self.ev(e[1], ent, pj)]
        if tag == "where":
            c = self.ev(e[1], ent, pj)
            a = self.ev(e[2], ent, pj)
            b = self.ev(e[3], ent, pj)
            return [y if x != 0 else z for x, y, z in zip(c, a, b)]
        if tag == "param":
            hist = self.sys["params"][e[1]] if e[1] < len(self.sys["params"]) else None
            if hist is None:
                raise DenErr("ENotFound")
            best = None
            for d, z in sorted(hist, key=lambda x: tuple(x[0])):
                if tuple(d) <= tuple(pj[1]):
                    best = (z,)
            if best is None or best[0] is None:
                raise DenErr("ENotFound")
            return [best[0]] * n
        ids, roles, count = self.pop["ids"], self.pop["roles"], self.pop["count"]
        if tag == "agg":
            a = self.ev(e[3], "person", pj)
            out = []
            for g in range(count):
                members = [a[i] for i in range(len(ids)) if ids[i] == g and (e[2] is None or roles[i] == e[2])]
                if e[1] == "from_person":
                    # the value of the one member holding the unique role, 0 when nobody does
                    out.append(members[0] if len(members) == 1 else 0)
                    continue
                if e[1] == "sum":
                    out.append(sum(members))
                elif e[1] == "any":
                    out.append(int(sum(members) > 0))
                else:
                    out.append(int(all(m != 0 for m in members)))
            return out
        if tag == "nb":
            return [sum(1 for i in range(len(ids)) if ids[i] == g and (e[1] is None or roles[i] == e[1]))
                    for g in range(count)]
        if tag == "project":
            a = self.ev(e[2], "group", pj)
            return [a[ids[i]] if (e[1] is None or roles[i] == e[1]) else 0 for i in range(len(ids))]
        if tag == "field":
            y, m, d = pj[1]
            return [{"year": y, "month": m, "day": d, "size": pj[2]}[e[1]]] * n
        if tag == "raise":
            if e[1] in self.switches:
                raise DenErr("EOther")
            return [0] * n
        raise AssertionError(tag)


def check_case(case, obs):
    """Compares every calculation answer of a run (obs of rules.run_case) with the meaning.
    Applies when the system is ranked, inputs are all set before the first calculation and
    nothing is deleted.  Returns None or a message."""
    from common import Err
    sys, pop = case["sys"], case["pop"]
    if not rules.is_ranked(sys):
        return None
    reqs = case["requests"]
    seen_calc = False
    inputs = {}
    switches = set(sys.get("switches", []))
    for r in reqs:
        if r[0] in ("calc", "add", "div"):
            seen_calc = True
        elif r[0] in ("set", "delete") and seen_calc:
            return None
        elif r[0] == "delete":
            return None
    den = Den(sys, pop, inputs, switches)
    for k, (r, o) in enumerate(zip(reqs, obs)):
        ans = o[0]
        if r[0] == "switch":
            (switches.add if r[2] else switches.discard)(r[1])
            den.switches = set(switches)
            continue
        if r[0] == "set":
            if isinstance(ans, Err):
                continue
            v = r[1]
            if v < len(sys["vars"]):
                var = sys["vars"][v]
                if var.get("neutral"):
                    continue
                if var.get("end") and tuple(r[2][1]) > tuple(var["end"]):
                    continue
                inputs[(v, den.norm(var, r[2]))] = _cast(var, list(r[3]))
            continue
        if r[0] not in ("calc", "add", "div"):
            continue
        try:
            if r[0] == "calc":
                want = den.value(r[1], r[2])
            elif r[0] == "add":
                want = den.add(r[1], r[2])
            else:
                a, d = den.divide(r[1], r[2])
                if d is None:     # cross-family request (weeks in a month ...): no independent denominator, no claim
                    continue
                want = [a, d]
        except DenErr as e:
            want = Err(e.kind)
        except Exception:  # noqa: BLE001 - the period API refused: no claim
            continue
        if isinstance(want, Err) and want.kind == "EFuel":
            continue
        if want != ans:
            return (f"meaning: request {k} {r[:3]} returned {ans!r} but the rule system's meaning on the "
                    f"given inputs is {want!r}")
    return None
