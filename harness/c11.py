"""C11 - each entity's result is independent of the other entities simulated with it.

A case is one rule system, TWO situations (population + input arrays each, same input keys
and same request list), an interleaving of the persons and of the groups of the two
situations (any order of the merged population: blocks, order-preserving interleavings,
arbitrary shuffles) and a permutation of the persons and groups of situation 1.

The real engine runs (1) situation 1 alone, (2) situation 2 alone, (3) the merged
population, (4) the permuted situation 1 - all built like rules.build_simulation does
(members_entity_id, members_role, count) - and, for a sub-stream, (5) the merged population
built by SimulationBuilder.build_from_entities from a JSON situation with string ids.

Correspondence: runs (1)-(4) are compared exactly with the model, where the merged and
permuted populations and inputs are computed by coq/model/Merge.v (corr/Corr_C11.v).
Oracle (model-independent): every answer and every cached array of the merged run,
restricted to the entities of situation k, equals the one of situation k alone; the permuted
run's arrays are the permuted arrays of run (1); error kinds, stack depths and holder keys are
identical; run (5) equals run (3)."""
from __future__ import annotations

import json
import warnings

import numpy

import rules
from common import Err, cbool, clist, copt, cz, errkind  # noqa: F401

PROP = "C11"
COQ_HEADER = "From Verif Require Import Np Group Param Engine CorrEng Merge Corr_C11."
COQ_RUN = "Corr_C11.run"
SHARD = 24
ANCHORS = ["openfisca_core/simulations/simulation_builder.py", "openfisca_core/populations/group_population.py",
           "openfisca_core/populations/population.py", "openfisca_core/populations/_core_population.py",
           "openfisca_core/simulations/simulation.py", "openfisca_core/holders/holder.py"]
RULE = ("random rule systems (3-8 variables over the expression language of coq/model/Engine.v, group operations "
        "sum/any/all/nb_persons/project with and without roles, value_from_person with the unique role, dated formulas, ADD/DIVIDE dependencies, parameters) "
        "compiled to real Variable subclasses; two random situations (1-5 persons, 1-4 households each, member-less "
        "households leading/middle/trailing), inputs for the same keys in both, one request list; an interleaving of "
        "persons and one of groups (blocks, reversed blocks, order-preserving, arbitrary shuffle) and a permutation of "
        "situation 1; 4 real simulations per case (+1 through SimulationBuilder.build_from_entities with string ids for "
        "every third case); plus an oracle-only stream (1 in 6) on a monthly variable with the divide set-input rule: "
        "explicit month inputs with many zeros, then a yearly amount, alone vs merged vs permuted; (n/3) first_person / "
        "value_nth_person / members_position on households of 3-5 members fully interleaved, merged in an order that keeps "
        "each situation's own order; (n/4) two JSON situations that spell the same periods differently (month / year / "
        "ETERNITY, person and group variables, one eternal, one with the divide rule) built alone and together through "
        "build_from_entities; (n/3) a group entity whose first role has sub-roles (parent -> first_parent / second_parent), "
        "one situation declaring no household at all or leaving persons out of its households, role-restricted "
        "nb_persons / sum / has_role / first_parent, alone vs together by id; (n/5) float64 inputs that float32 rounds (0.1, "
        "2^24+1, 1/3) in situation 1 and 1e39 / inf / -inf / NaN in situation 2: stored array and dtype, x > 0.1, household "
        "sums; one case with 66000-70000 single-person households before and after situation 1 (membership arrays and "
        "build_from_entities without households); (n/3) JSON situations with `axes` (count 2-4, one or two parallel axes per "
        "situation) and member-less households in every position incl. last: every replicate of the merged / reordered "
        "document against the same replicate of the situation alone; non-trivial when a formula with a group operation was evaluated in the merged simulation "
        "and returned an array; distinct by JSON text")
TRUSTED = ["harness/rules.py: compiler from rule-system terms to real Variable subclasses (formulas call the public API)",
           "harness/c11.py: scatter-style construction of merged / permuted members_entity_id, members_role and input arrays"]
ASSUMPTIONS = ["generated values stay below 2^22 in absolute value (exact in int32 and float32); cases producing a "
               "non-integer or larger value are discarded and counted (classify = 'skipped-inexact')",
               "every situation has at least one person (SimulationBuilder refuses a situation without persons)",
               "rule systems are well-kinded: a formula returns one value per entity of its variable",
               "no position-dependent primitive (value_nth_person, first_person, get_rank) exists in the expression language"]

PROFILE = {"nvars": (3, 8), "bad": 0.03, "badreq": 0.06, "nparams": 2, "neutral": 0.05}
GROUP_PROFILE = {"nvars": (4, 8), "bad": 0.0, "badreq": 0.0, "nparams": 1, "neutral": 0.0, "depth": 4}
SPIRAL_PROFILE = {"nvars": (2, 5), "spiral": 0.5, "bad": 0.0, "badreq": 0.0, "nparams": 1, "depth": 2}

_SKIP = set()
ORACLE_ONLY = ("divide", "first", "spell", "roles", "f32", "scale", "axes")


def _key(case):
    return json.dumps(case, sort_keys=True)


# ---------------------------------------------------------------------------------------
# generator
# ---------------------------------------------------------------------------------------

def gen_interleaving(rng, n1, n2):
    """(mode, f1, f2): f_k[i] = position of element i of situation k among the n1 + n2 merged ones."""
    mode = rng.choice(["block", "block-rev", "ordered", "ordered", "shuffle", "shuffle"])
    if mode == "block":
        order = [(0, i) for i in range(n1)] + [(1, i) for i in range(n2)]
    elif mode == "block-rev":
        order = [(1, i) for i in range(n2)] + [(0, i) for i in range(n1)]
    elif mode == "ordered":
        tags = [0] * n1 + [1] * n2
        rng.shuffle(tags)
        nxt = [0, 0]
        order = []
        for t in tags:
            order.append((t, nxt[t]))
            nxt[t] += 1
    else:
        order = [(0, i) for i in range(n1)] + [(1, i) for i in range(n2)]
        rng.shuffle(order)
    f = [[None] * n1, [None] * n2]
    for pos, (k, i) in enumerate(order):
        f[k][i] = pos
    return mode, f[0], f[1]


def gen_perm(rng, n):
    s = list(range(n))
    r = rng.random()
    if r < 0.15:
        return s
    if r < 0.3:
        return s[::-1]
    rng.shuffle(s)
    return s


def gen_one(rng, profile, builder):
    sys = rules.gen_system(rng, profile)
    pop1 = rules.gen_pop(rng, profile.get("max_persons", 5))
    pop2 = rules.gen_pop(rng, profile.get("max_persons", 5))
    reqs = rules.gen_requests(rng, sys, pop1, profile)
    sets1 = [r for r in reqs if r[0] == "set"]
    if builder:
        # a JSON situation gives one value per (variable, period): keep the first of repeated keys
        seen, uniq = set(), []
        for r in sets1:
            k = json.dumps([r[1], r[2]])
            if k not in seen:
                seen.add(k)
                uniq.append(r)
        sets1 = uniq
    rest = [r for r in reqs if r[0] != "set"]
    sets2 = [["set", r[1], r[2], rules.input_values(rng, sys["vars"][r[1]], rules.count_for(pop2, sys["vars"][r[1]]))]
             for r in sets1]
    for v in sys["vars"]:
        v.pop("divisible", None)
    if rng.random() < 0.5:
        # unique-role stream: the head's value of an input variable, read per household and projected back
        cands = [r for r in sets1 if sys["vars"][r[1]]["ent"] == "person" and sys["vars"][r[1]]["unit"] != "eternity"
                 and not sys["vars"][r[1]].get("neutral")]
        if cands:
            r = rng.choice(cands)
            j, src = r[1], sys["vars"][r[1]]
            ty = "float" if src["type"] == "float" else "int"
            k = len(sys["vars"])
            sys["vars"].append({"ent": "group", "type": ty, "unit": src["unit"], "end": None, "default": 0, "neutral": False,
                                "formulas": [[[1, 1, 1], ["agg", "from_person", 2, ["dep", j, "same", "plain"]]]]})
            sys["vars"].append({"ent": "person", "type": ty, "unit": src["unit"], "end": None, "default": 0, "neutral": False,
                                "formulas": [[[1, 1, 1], ["bin", "sub", ["project", None, ["dep", k, "same", "plain"]],
                                                          ["dep", j, "same", "plain"]]]]})
            rest = rest + [["calc", k + rng.randrange(2), r[2]], ["calc", k, r[2]]]
    n1, n2 = len(pop1["ids"]), len(pop2["ids"])
    pmode, f1, f2 = gen_interleaving(rng, n1, n2)
    gmode, g1, g2 = gen_interleaving(rng, pop1["count"], pop2["count"])
    return {"sys": sys, "pop1": pop1, "pop2": pop2,
            "inp1": [[r[1], r[2], r[3]] for r in sets1], "inp2": [[r[1], r[2], r[3]] for r in sets2],
            "f1": f1, "f2": f2, "g1": g1, "g2": g2, "modes": [pmode, gmode],
            "sp": gen_perm(rng, n1), "sg": gen_perm(rng, pop1["count"]),
            "requests": rest, "builder": bool(builder)}


def gen_divide(rng):
    """Oracle-only stream: a monthly variable with the divide set-input rule; some months given
    explicitly (many zeros, often a month where one whole situation is at zero), then a yearly amount."""
    pop1, pop2 = rules.gen_pop(rng, 3), rules.gen_pop(rng, 3)
    n1, n2 = len(pop1["ids"]), len(pop2["ids"])
    year = rng.choice([2017, 2018, 2020])
    months = sorted(rng.sample(range(1, 13), rng.randint(1, 4)))

    def month_values(n):
        if rng.random() < 0.5:
            return [0] * n
        return [rng.choice([0, 0, 120, 600, 1200]) for _ in range(n)]
    m1 = [[m, month_values(n1)] for m in months]
    m2 = [[m, month_values(n2)] for m in months]
    y1 = [rng.choice([0, 1200, 2400, 13200]) for _ in range(n1)]
    y2 = [rng.choice([0, 1200, 2400, 13200]) for _ in range(n2)]
    pmode, f1, f2 = gen_interleaving(rng, n1, n2)
    gmode, g1, g2 = gen_interleaving(rng, pop1["count"], pop2["count"])
    return {"kind": "divide", "pop1": pop1, "pop2": pop2, "year": year, "months1": m1, "months2": m2,
            "year1": y1, "year2": y2, "f1": f1, "f2": f2, "g1": g1, "g2": g2, "modes": [pmode, gmode],
            "sp": gen_perm(rng, n1), "sg": gen_perm(rng, pop1["count"])}


def gen_big_situation(rng):
    """1-2 households of 3-5 members (sometimes one more without members), the persons of the households
    of one situation interleaved among themselves"""
    nh = rng.randint(1, 2)
    sizes = [rng.randint(3, 5) for _ in range(nh)]
    tags = [h for h in range(nh) for _ in range(sizes[h])]
    if rng.random() < 0.7:
        rng.shuffle(tags)
    else:
        tags = [h for k in range(max(sizes)) for h in range(nh) if k < sizes[h]]     # a0 b0 a1 b1 ...
    count = nh
    if rng.random() < 0.3:          # a household without members, first or last
        count += 1
        if rng.random() < 0.5:
            tags = [t + 1 for t in tags]
    roles, parents = [], {}
    for g in tags:
        if parents.get(g, 0) < 2:
            roles.append(0)
            parents[g] = parents.get(g, 0) + 1
        else:
            roles.append(1)
    return {"count": count, "ids": tags, "roles": roles}


def gen_first(rng):
    """Oracle-only stream: position-dependent primitives (first_person, value_nth_person,
    members_position) on larger households whose persons are fully interleaved; the interleaving keeps each
    situation's internal order (the first sentence of the property then covers them)."""
    pop1, pop2 = gen_big_situation(rng), gen_big_situation(rng)
    n1, n2 = len(pop1["ids"]), len(pop2["ids"])
    if rng.random() < 0.5:
        tags = [k for i in range(max(n1, n2)) for k in (0, 1) if i < (n1, n2)[k]]     # strictly alternating
    else:
        tags = [0] * n1 + [1] * n2
        rng.shuffle(tags)
    f, nxt = [[], []], 0
    for pos, t in enumerate(tags):
        f[t].append(pos)
    gmode, g1, g2 = gen_interleaving(rng, pop1["count"], pop2["count"])
    return {"kind": "first", "pop1": pop1, "pop2": pop2, "f1": f[0], "f2": f[1], "g1": g1, "g2": g2,
            "x1": [rng.randint(1, 900) for _ in range(n1)], "x2": [rng.randint(1, 900) for _ in range(n2)],
            "modes": ["ordered", gmode]}


MONTH_SPELLINGS = ["2018-01", "month:2018-01", "month:2018-01:1"]
YEAR_SPELLINGS = ["2018", "year:2018", "year:2018:1"]
ETERNITY_SPELLINGS = ["ETERNITY", "eternity"]
SPELL_VARS = {  # name: (entity, value type, definition period, spellings, divide rule)
    "pm": ("person", "int", "month", MONTH_SPELLINGS, False),
    "pe": ("person", "int", "eternity", ETERNITY_SPELLINGS, False),
    "pd": ("person", "float", "month", YEAR_SPELLINGS, True),
    "gm": ("group", "float", "month", MONTH_SPELLINGS, False),
    "ge": ("group", "int", "eternity", ETERNITY_SPELLINGS, False),
    "gy": ("group", "int", "year", YEAR_SPELLINGS, False),
}


def gen_spell(rng):
    """Oracle-only stream through SimulationBuilder.build_from_entities: the two situations spell the same
    periods differently."""
    pop1, pop2 = rules.gen_pop(rng, 3), rules.gen_pop(rng, 3)
    n1, n2 = len(pop1["ids"]), len(pop2["ids"])
    spell = {}
    for name, (_e, _t, _u, forms, _d) in SPELL_VARS.items():
        a = rng.choice(forms)
        b = rng.choice([x for x in forms if x != a]) if rng.random() < 0.8 else a
        spell[name] = [a, b]
    vals = []
    for pop in (pop1, pop2):
        d = {}
        for name, (ent, _t, _u, _f, div) in SPELL_VARS.items():
            k = len(pop["ids"]) if ent == "person" else pop["count"]
            d[name] = [(1200 * rng.randint(1, 9) if div else rng.randint(1, 500)) if rng.random() < 0.85 else None
                       for _ in range(k)]
        vals.append(d)
    pmode, f1, f2 = gen_interleaving(rng, n1, n2)
    gmode, g1, g2 = gen_interleaving(rng, pop1["count"], pop2["count"])
    return {"kind": "spell", "pop1": pop1, "pop2": pop2, "spell": spell, "vals1": vals[0], "vals2": vals[1],
            "f1": f1, "f2": f2, "g1": g1, "g2": g2, "modes": [pmode, gmode]}


def gen_roles_situation(rng, k, declares):
    """persons s<k>_p<i>; when the situation declares households, some persons are left out of all of them"""
    n = rng.randint(1, 4)
    persons = [f"s{k}_p{i}" for i in range(n)]
    sal = [rng.randint(1, 900) for _ in range(n)]
    households = None
    if declares:
        households = []
        pool = list(persons)
        rng.shuffle(pool)
        left_out = rng.randint(0, min(2, n)) if rng.random() < 0.8 else 0
        pool = pool[left_out:]
        nh = rng.randint(1, 2)
        hs = [{"id": f"s{k}_h{j}", "parents": [], "children": []} for j in range(nh)]
        for pid in pool:
            h = rng.choice(hs)
            if len(h["parents"]) < 2 and rng.random() < 0.6:
                h["parents"].append(pid)
            else:
                h["children"].append(pid)
        households = hs
    return {"persons": persons, "salary": sal, "households": households}


def gen_roles(rng):
    """Oracle-only stream through build_from_entities: the FIRST role of the group entity has sub-roles
    (parent -> first_parent / second_parent); one situation may declare no household at all (every person gets
    a household of his own by default), the other declares households and leaves some persons out of them."""
    d1 = rng.random() < 0.6
    d2 = (not d1) or rng.random() < 0.5
    s1, s2 = gen_roles_situation(rng, 0, d1), gen_roles_situation(rng, 1, d2)
    pmode, f1, f2 = gen_interleaving(rng, len(s1["persons"]), len(s2["persons"]))
    c1, c2 = len(s1["households"] or []), len(s2["households"] or [])
    gmode, g1, g2 = gen_interleaving(rng, c1, c2)
    return {"kind": "roles", "sit1": s1, "sit2": s2, "f1": f1, "f2": f2, "g1": g1, "g2": g2, "modes": [pmode, gmode]}


def gen_f32(rng):
    """Oracle-only stream: float64 inputs that float32 cannot represent for situation 1, a huge / infinite /
    NaN value somewhere in situation 2, same variable."""
    pop1, pop2 = rules.gen_pop(rng, 3), rules.gen_pop(rng, 3)
    n1, n2 = len(pop1["ids"]), len(pop2["ids"])
    fine = ["0.1", "16777217.0", "0.3333333333333333", "0.7", "33554435.0", "0.1000000001", "-0.1", "2.5", "0.0"]
    huge = ["1e39", "inf", "-inf", "nan", "-1e39", "3.5e38"]
    x1 = [rng.choice(fine) for _ in range(n1)]
    x2 = [rng.choice(fine + huge) for _ in range(n2)]
    x2[rng.randrange(n2)] = rng.choice(huge)
    pmode, f1, f2 = gen_interleaving(rng, n1, n2)
    gmode, g1, g2 = gen_interleaving(rng, pop1["count"], pop2["count"])
    return {"kind": "f32", "pop1": pop1, "pop2": pop2, "x1": x1, "x2": x2,
            "f1": f1, "f2": f2, "g1": g1, "g2": g2, "modes": [pmode, gmode]}


def gen_scale(rng):
    """Oracle-only, one per run: situation 2 has more than 65536 single-person households."""
    pop1 = rules.gen_pop(rng, 4)
    n1 = len(pop1["ids"])
    n2 = rng.randint(66000, 70000)
    return {"kind": "scale", "pop1": pop1, "n2": n2, "x1": [rng.randint(1, 900) for _ in range(n1)],
            "seed2": rng.randrange(10 ** 6), "modes": ["block+block-rev", "block+block-rev"]}


def gen_sparse_pop(rng):
    """1-4 persons in 1-4 households, households without members in every position (often the last one)"""
    n, count = rng.randint(1, 4), rng.randint(1, 4)
    used = sorted(rng.sample(range(count), rng.randint(1, count)))
    if count > 1 and rng.random() < 0.5 and count - 1 in used:
        used.remove(count - 1)              # the household written last has no member
        used = used or [0]
    ids = [rng.choice(used) for _ in range(n)]
    roles, parents, heads = [], {}, set()
    for g in ids:
        r = rng.random()
        if r < 0.5 and parents.get(g, 0) < 2:
            roles.append(0)
            parents[g] = parents.get(g, 0) + 1
        elif r < 0.65 and g not in heads:
            roles.append(2)
            heads.add(g)
        else:
            roles.append(1)
    return {"count": count, "ids": ids, "roles": roles}


def gen_axes(rng):
    """Oracle-only stream through build_from_entities with `axes` (count 2-4, one or two parallel axes per
    situation): the replicated merged situation against each replicated situation alone, and a reordering of
    situation 1."""
    pop1, pop2 = gen_sparse_pop(rng), gen_sparse_pop(rng)
    count = rng.randint(2, 4)
    sits = []
    for pop in (pop1, pop2):
        n = len(pop["ids"])
        vals = {name: [rng.choice([None, 10, 250, 1200]) for _ in range(n)] for name in ("x", "y")}
        axes = [{"name": rng.choice(["x", "y"]), "index": rng.randrange(n), "min": rng.choice([0, 100]),
                 "max": rng.choice([300, 900, 1000])} for _ in range(rng.randint(1, 2))]
        if len(axes) == 2 and (axes[0]["name"], axes[0]["index"]) == (axes[1]["name"], axes[1]["index"]):
            axes.pop()
        sits.append({"vals": vals, "axes": axes})
    pmode, f1, f2 = gen_interleaving(rng, len(pop1["ids"]), len(pop2["ids"]))
    gmode, g1, g2 = gen_interleaving(rng, pop1["count"], pop2["count"])
    return {"kind": "axes", "pop1": pop1, "pop2": pop2, "count": count, "sit1": sits[0], "sit2": sits[1],
            "f1": f1, "f2": f2, "g1": g1, "g2": g2, "modes": [pmode, gmode],
            "sp": gen_perm(rng, len(pop1["ids"])), "sg": gen_perm(rng, pop1["count"])}


def generate(rng, tier):
    n = {"quick": 300, "escalated": 600, "thorough": 4000}[tier]
    cases = []
    for k in range(n):
        profile = SPIRAL_PROFILE if k % 12 == 11 else (GROUP_PROFILE if k % 2 == 0 else PROFILE)
        cases.append(gen_one(rng, profile, builder=(k % 3 == 0)))
    for _ in range(n // 5):
        cases.append(gen_divide(rng))
    for _ in range(n // 3):
        cases.append(gen_first(rng))
    for _ in range(n // 4):
        cases.append(gen_spell(rng))
    for _ in range(n // 3):
        cases.append(gen_roles(rng))
    for _ in range(n // 5):
        cases.append(gen_f32(rng))
    for _ in range(n // 3):
        cases.append(gen_axes(rng))
    for _ in range(max(1, n // 1000)):
        cases.append(gen_scale(rng))
    return cases


# ---------------------------------------------------------------------------------------
# merged / permuted situations for the real engine (scatter: element i goes to position f[i])
# ---------------------------------------------------------------------------------------

def scatter(pairs, n):
    """pairs: [(placement, array)...] -> list of n elements"""
    out = [None] * n
    for f, a in pairs:
        assert len(f) == len(a), (f, a)
        for i, x in enumerate(a):
            assert out[f[i]] is None
            out[f[i]] = x
    assert all(x is not None for x in out), out
    return out


def merged_pop(case):
    p1, p2 = case["pop1"], case["pop2"]
    n = len(p1["ids"]) + len(p2["ids"])
    ids = scatter([(case["f1"], [case["g1"][g] for g in p1["ids"]]),
                   (case["f2"], [case["g2"][g] for g in p2["ids"]])], n)
    roles = scatter([(case["f1"], p1["roles"]), (case["f2"], p2["roles"])], n)
    return {"count": p1["count"] + p2["count"], "ids": ids, "roles": roles}


def permuted_pop(case):
    p1 = case["pop1"]
    n = len(p1["ids"])
    return {"count": p1["count"],
            "ids": scatter([(case["sp"], [case["sg"][g] for g in p1["ids"]])], n),
            "roles": scatter([(case["sp"], p1["roles"])], n)}


def ent_of(case, v):
    vs = case["sys"]["vars"]
    return vs[v]["ent"] if 0 <= v < len(vs) else "person"


def merged_inputs(case):
    out = []
    for (v, p, a1), (_v2, _p2, a2) in zip(case["inp1"], case["inp2"]):
        fa, fb = (case["f1"], case["f2"]) if ent_of(case, v) == "person" else (case["g1"], case["g2"])
        out.append([v, p, scatter([(fa, a1), (fb, a2)], len(a1) + len(a2))])
    return out


def permuted_inputs(case):
    out = []
    for v, p, a in case["inp1"]:
        f = case["sp"] if ent_of(case, v) == "person" else case["sg"]
        out.append([v, p, scatter([(f, a)], len(a))])
    return out


def as_sets(inp):
    return [["set", v, p, a] for v, p, a in inp]


# ---------------------------------------------------------------------------------------
# the merged situation through SimulationBuilder.build_from_entities (string ids)
# ---------------------------------------------------------------------------------------

def json_value(var, z):
    if var["type"] == "bool":
        return bool(z)
    if var["type"] == "float":
        return float(z)
    return int(z)


def situation_json(case, pop, inputs):
    """JSON situation describing `pop` (persons and households in storage order) and `inputs`."""
    sys = case["sys"]
    n, count = len(pop["ids"]), pop["count"]
    pid = [f"person_{chr(97 + (7 * i) % 26)}{i}" for i in range(n)]
    hid = [f"hh_{chr(122 - (5 * j) % 26)}{j}" for j in range(count)]
    persons = {pid[i]: {} for i in range(n)}
    households = {hid[j]: {"parents": [], "children": [], "heads": []} for j in range(count)}
    for i in range(n):
        households[hid[pop["ids"][i]]][["parents", "children", "heads"][pop["roles"][i]]].append(pid[i])
    for v, p, a in inputs:
        var = sys["vars"][v]
        period = str(rules.mk_period(p))
        target, ids = (persons, pid) if var["ent"] == "person" else (households, hid)
        for i, z in enumerate(a):
            target[ids[i]].setdefault(f"v{v}", {})[period] = json_value(var, z)
    return {"persons": persons, "households": households}


def run_builder(case, pop, inputs):
    """[population as built, per-request observations of the non-set requests]"""
    from openfisca_core.simulations.simulation_builder import SimulationBuilder
    sys = case["sys"]
    switches = set(sys.get("switches", []))
    tbs = rules.build_system(sys, switches)
    sim = SimulationBuilder().build_from_entities(tbs, situation_json(case, pop, inputs))
    sim.max_spiral_loops = sys.get("max_loops", 1)
    hh = sim.populations["household"]
    built = [int(hh.count), [int(x) for x in hh.members_entity_id],
             [rules.ROLE_KEYS.index(r.key) for r in hh.members_role], int(sim.persons.count)]
    out = []
    for r in case["requests"]:
        try:
            a = rules.do_request(sim, sys, switches, r)
        except rules.Inexact:
            raise
        except Exception as e:  # noqa: BLE001
            a = Err(errkind(e), f"{type(e).__name__}: {e}"[:200])
        out.append([a, len(sim.tracer.stack), rules.cache_obs(sim, sys)])
    return [built, out]


def builder_applicable(case):
    """inputs that a JSON situation can express: known variable, one value per entity, no key given twice"""
    seen = set()
    for v, p, _a in case["inp1"]:
        k = json.dumps([v, p])
        if k in seen or not (0 <= v < len(case["sys"]["vars"])):
            return False
        seen.add(k)
    return True


# ---------------------------------------------------------------------------------------
# implementation driver
# ---------------------------------------------------------------------------------------

def run_divide_one(pop, months, yearly, year):
    """set the months, then the year (set_input_divide_by_period spreads what remains over the months
    that are not known), read the twelve months of the person variable and of its household sum"""
    from openfisca_core import holders, periods
    from openfisca_core.variables import Variable
    tbs = rules.build_system({"vars": [], "params": []}, set())
    person, household = tbs.person_entity, tbs.group_entities[0]

    class sal(Variable):
        value_type = float
        entity = person
        definition_period = periods.DateUnit.MONTH
        set_input = holders.set_input_divide_by_period

    class total(Variable):
        value_type = float
        entity = household
        definition_period = periods.DateUnit.MONTH

        def formula(hh, period, parameters):
            return hh.sum(hh.members("sal", period))

    tbs.add_variable(sal)
    tbs.add_variable(total)
    sim = rules.build_simulation(tbs, pop, {}, {"max_loops": 1})
    for m, a in months:
        sim.set_input("sal", f"{year}-{m:02d}", numpy.array(a, dtype=float))
    sim.set_input("sal", str(year), numpy.array(yearly, dtype=float))
    out = []
    for m in range(1, 13):
        out.append([[float(x) for x in sim.calculate("sal", f"{year}-{m:02d}")],
                    [float(x) for x in sim.calculate("total", f"{year}-{m:02d}")]])
    return out


def run_divide(case):
    n1, n2 = len(case["pop1"]["ids"]), len(case["pop2"]["ids"])
    mm = [[m, scatter([(case["f1"], a1), (case["f2"], a2)], n1 + n2)]
          for (m, a1), (_m, a2) in zip(case["months1"], case["months2"])]
    pm = [[m, scatter([(case["sp"], a1)], n1)] for m, a1 in case["months1"]]
    runs = []
    with warnings.catch_warnings():
        warnings.simplefilter("ignore")
        for pop, months, yearly in (
                (case["pop1"], case["months1"], case["year1"]),
                (case["pop2"], case["months2"], case["year2"]),
                (merged_pop(case), mm, scatter([(case["f1"], case["year1"]), (case["f2"], case["year2"])], n1 + n2)),
                (permuted_pop(case), pm, scatter([(case["sp"], case["year1"])], n1))):
            try:
                runs.append(run_divide_one(pop, months, yearly, case["year"]))
            except Exception as e:  # noqa: BLE001
                runs.append(Err(errkind(e), f"{type(e).__name__}: {e}"[:200]))
    return {"divide": runs}


def oracle_divide(case, obs):
    a1, a2, m, p = obs["divide"]
    n1, n2 = len(case["pop1"]["ids"]), len(case["pop2"]["ids"])
    c1, c2 = case["pop1"]["count"], case["pop2"]["count"]
    for tag, big, small, fp, fg, nb, cb in (
            ("merged-vs-situation1", m, a1, case["f1"], case["g1"], n1 + n2, c1 + c2),
            ("merged-vs-situation2", m, a2, case["f2"], case["g2"], n1 + n2, c1 + c2),
            ("permuted", p, a1, case["sp"], case["sg"], n1, c1)):
        if isinstance(small, Err):
            return f"driver: the situation alone fails: {small.kind} {small.msg}"
        if isinstance(big, Err):
            return f"{tag}-divide-rule: together {big!r} {big.msg}, alone {len(small)} months of values"
        for k, (ob, os_) in enumerate(zip(big, small)):
            msg = (compare_arrays(f"{tag}-divide-rule: month {k + 1} of the spread variable", ob[0], os_[0], fp, nb)
                   or compare_arrays(f"{tag}-divide-rule: month {k + 1} of the household sum", ob[1], os_[1], fg, cb))
            if msg:
                return msg
    return None


def run_first_one(pop, x):
    """position-dependent primitives of GroupPopulation on the real engine"""
    from openfisca_core import periods
    from openfisca_core.variables import Variable
    tbs = rules.build_system({"vars": [], "params": []}, set())
    person, household = tbs.person_entity, tbs.group_entities[0]

    class x_in(Variable):
        value_type = int
        entity = person
        definition_period = periods.DateUnit.MONTH

    class first_x(Variable):
        value_type = int
        entity = household
        definition_period = periods.DateUnit.MONTH

        def formula(hh, period, parameters):
            return hh.first_person("x_in", period)

    class my_first_x(Variable):
        value_type = int
        entity = person
        definition_period = periods.DateUnit.MONTH

        def formula(pers, period, parameters):
            return pers.household.first_person("x_in", period)

    for cls in (x_in, first_x, my_first_x):
        tbs.add_variable(cls)
    sim = rules.build_simulation(tbs, pop, {}, {"max_loops": 1})
    sim.set_input("x_in", "2018-01", numpy.array(x))
    hh = sim.populations["household"]
    arr = numpy.array(x)
    group = {"first_person(variable)": [int(v) for v in sim.calculate("first_x", "2018-01")],
             "value_from_first_person": [int(v) for v in hh.value_from_first_person(arr)]}
    for k in range(4):
        group[f"value_nth_person({k})"] = [int(v) for v in hh.value_nth_person(k, arr, default=-1)]
    pers = {"members_position": [int(v) for v in hh.members_position],
            "person.household.first_person(variable)": [int(v) for v in sim.calculate("my_first_x", "2018-01")]}
    return {"group": group, "person": pers}


def run_first(case):
    n1, n2 = len(case["pop1"]["ids"]), len(case["pop2"]["ids"])
    runs = []
    with warnings.catch_warnings():
        warnings.simplefilter("ignore")
        for pop, x in ((case["pop1"], case["x1"]), (case["pop2"], case["x2"]),
                       (merged_pop(case), scatter([(case["f1"], case["x1"]), (case["f2"], case["x2"])], n1 + n2))):
            try:
                runs.append(run_first_one(pop, x))
            except Exception as e:  # noqa: BLE001
                runs.append(Err(errkind(e), f"{type(e).__name__}: {e}"[:200]))
    return {"first": runs}


def oracle_first(case, obs):
    a1, a2, m = obs["first"]
    n1, n2 = len(case["pop1"]["ids"]), len(case["pop2"]["ids"])
    c1, c2 = case["pop1"]["count"], case["pop2"]["count"]
    for tag, small, fp, fg in (("merged-vs-situation1", a1, case["f1"], case["g1"]),
                               ("merged-vs-situation2", a2, case["f2"], case["g2"])):
        if isinstance(small, Err):
            return f"driver: the situation alone fails: {small.kind} {small.msg}"
        if isinstance(m, Err):
            return f"{tag}-position: together {m!r} {m.msg}, alone values"
        for level, f, total in (("group", fg, c1 + c2), ("person", fp, n1 + n2)):
            for name in small[level]:
                msg = compare_arrays(f"{tag}-position: {name}", m[level][name], small[level][name], f, total)
                if msg:
                    return msg
    return None


def spell_system():
    from openfisca_core import holders, periods
    from openfisca_core.variables import Variable
    tbs = rules.build_system({"vars": [], "params": []}, set())
    ents = {"person": tbs.person_entity, "group": tbs.group_entities[0]}
    for name, (ent, ty, unit, _forms, div) in SPELL_VARS.items():
        attrs = {"value_type": rules.TYPES[ty], "entity": ents[ent], "definition_period": rules.UNIT_OBJ[unit]}
        if div:
            attrs["set_input"] = holders.set_input_divide_by_period
        tbs.add_variable(type(name, (Variable,), attrs))
    return tbs


def spell_situation(case, which):
    """JSON situation of situation 1, of situation 2 (which = 0 / 1) or of both merged (which = None):
    persons and households in storage order, every situation with ITS OWN spelling of the periods"""
    pops = (case["pop1"], case["pop2"])
    vals = (case["vals1"], case["vals2"])
    if which is None:
        n = len(pops[0]["ids"]) + len(pops[1]["ids"])
        c = pops[0]["count"] + pops[1]["count"]
        porder = scatter([(case["f1"], [(0, i) for i in range(len(pops[0]["ids"]))]),
                          (case["f2"], [(1, i) for i in range(len(pops[1]["ids"]))])], n)
        gorder = scatter([(case["g1"], [(0, g) for g in range(pops[0]["count"])]),
                          (case["g2"], [(1, g) for g in range(pops[1]["count"])])], c)
    else:
        porder = [(which, i) for i in range(len(pops[which]["ids"]))]
        gorder = [(which, g) for g in range(pops[which]["count"])]
    persons, households = {}, {}
    for k, i in porder:
        d = {}
        for name, (ent, ty, _u, _f, _d) in SPELL_VARS.items():
            if ent == "person" and vals[k][name][i] is not None:
                d[name] = {case["spell"][name][k]: rules.TYPES[ty](vals[k][name][i])}
        persons[f"s{k}_p{i}"] = d
    for k, g in gorder:
        d = {"parents": [], "children": [], "heads": []}
        for i, gi in enumerate(pops[k]["ids"]):
            if gi == g:
                d[["parents", "children", "heads"][pops[k]["roles"][i]]].append(f"s{k}_p{i}")
        for name, (ent, ty, _u, _f, _d) in SPELL_VARS.items():
            if ent == "group" and vals[k][name][g] is not None:
                d[name] = {case["spell"][name][k]: rules.TYPES[ty](vals[k][name][g])}
        households[f"s{k}_h{g}"] = d
    return {"persons": persons, "households": households}


SPELL_READS = {"pm": ["2018-01", "2018-02"], "pe": ["2018-01"], "pd": ["2018-01", "2018-07", "2018-12"],
               "gm": ["2018-01"], "ge": ["2018-01"], "gy": ["2018"]}


def run_spell_one(situation):
    """{variable: {period: {entity id: value}}}"""
    from openfisca_core.simulations.simulation_builder import SimulationBuilder
    sim = SimulationBuilder().build_from_entities(spell_system(), situation)
    out = {}
    for name, (ent, _t, _u, _f, _d) in SPELL_VARS.items():
        pop = sim.persons if ent == "person" else sim.populations["household"]
        out[name] = {}
        for per in SPELL_READS[name]:
            values = sim.calculate(name, per)
            out[name][per] = {str(i): float(v) for i, v in zip(pop.ids, values)}
    return out


def run_spell(case):
    runs = []
    with warnings.catch_warnings():
        warnings.simplefilter("ignore")
        for which in (0, 1, None):
            try:
                runs.append(run_spell_one(spell_situation(case, which)))
            except Exception as e:  # noqa: BLE001
                runs.append(Err(errkind(e), f"{type(e).__name__}: {e}"[:200]))
    return {"spell": runs}


def oracle_spell(case, obs):
    a1, a2, m = obs["spell"]
    for k, small in enumerate((a1, a2)):
        tag = f"merged-vs-situation{k + 1}-builder-periods"
        if isinstance(small, Err):
            return f"driver: the situation alone fails: {small.kind} {small.msg}"
        if isinstance(m, Err):
            return (f"{tag}: build_from_entities fails on the two situations together ({m.kind} {m.msg}); "
                    f"period spellings {case['spell']}")
        for name in small:
            for per, by_id in small[name].items():
                for ident, v in by_id.items():
                    got = m[name][per].get(ident)
                    if got != v:
                        return (f"{tag}: {name} of {ident} at {per} is {got} together, {v} alone "
                                f"(spelled {case['spell'][name][k]!r} here, {case['spell'][name][1 - k]!r} in the other situation)")
    return None


ROLE_PERSON_VARS = ["is_parent", "is_first_parent", "is_child", "parents_in_my_household"]
ROLE_GROUP_VARS = ["nb_members", "nb_parents", "nb_first_parents", "nb_children", "parents_salary",
                   "first_parents_salary", "first_parent_salary", "children_salary"]


def roles_system():
    from openfisca_core import periods
    from openfisca_core.entities import build_entity
    from openfisca_core.taxbenefitsystems import TaxBenefitSystem
    from openfisca_core.variables import Variable
    person = build_entity(key="person", plural="persons", label="", is_person=True)
    household = build_entity(key="household", plural="households", label="", roles=[
        {"key": "parent", "plural": "parents", "subroles": ["first_parent", "second_parent"]},
        {"key": "child", "plural": "children"}])
    month = periods.DateUnit.MONTH
    H = household

    def var(name, ent, ty, f=None):
        attrs = {"value_type": ty, "entity": ent, "definition_period": month}
        if f is not None:
            attrs["formula"] = f
        return type(name, (Variable,), attrs)
    classes = [
        var("salary", person, float),
        var("is_parent", person, bool, lambda p, period: p.has_role(H.PARENT)),
        var("is_first_parent", person, bool, lambda p, period: p.has_role(H.FIRST_PARENT)),
        var("is_child", person, bool, lambda p, period: p.has_role(H.CHILD)),
        var("parents_in_my_household", person, int, lambda p, period: p.household("nb_parents", period)),
        var("nb_members", household, int, lambda h, period: h.nb_persons()),
        var("nb_parents", household, int, lambda h, period: h.nb_persons(H.PARENT)),
        var("nb_first_parents", household, int, lambda h, period: h.nb_persons(H.FIRST_PARENT)),
        var("nb_children", household, int, lambda h, period: h.nb_persons(H.CHILD)),
        var("parents_salary", household, float, lambda h, period: h.sum(h.members("salary", period), role=H.PARENT)),
        var("first_parents_salary", household, float,
            lambda h, period: h.sum(h.members("salary", period), role=H.FIRST_PARENT)),
        var("first_parent_salary", household, float, lambda h, period: h.first_parent("salary", period)),
        var("children_salary", household, float, lambda h, period: h.sum(h.members("salary", period), role=H.CHILD)),
    ]
    tbs = TaxBenefitSystem([person, household])
    for c in classes:
        tbs.add_variable(c)
    return tbs


def roles_situation(case, which):
    sits = (case["sit1"], case["sit2"])
    if which is None:
        n = len(sits[0]["persons"]) + len(sits[1]["persons"])
        porder = scatter([(case["f1"], [(0, i) for i in range(len(sits[0]["persons"]))]),
                          (case["f2"], [(1, i) for i in range(len(sits[1]["persons"]))])], n)
        c1, c2 = len(sits[0]["households"] or []), len(sits[1]["households"] or [])
        gorder = scatter([(case["g1"], [(0, j) for j in range(c1)]), (case["g2"], [(1, j) for j in range(c2)])], c1 + c2)
        declares = sits[0]["households"] is not None or sits[1]["households"] is not None
    else:
        porder = [(which, i) for i in range(len(sits[which]["persons"]))]
        gorder = [(which, j) for j in range(len(sits[which]["households"] or []))]
        declares = sits[which]["households"] is not None
    doc = {"persons": {sits[k]["persons"][i]: {"salary": {"2018-01": float(sits[k]["salary"][i])}} for k, i in porder}}
    if declares:
        doc["households"] = {sits[k]["households"][j]["id"]: {"parents": list(sits[k]["households"][j]["parents"]),
                                                              "children": list(sits[k]["households"][j]["children"])}
                             for k, j in gorder}
    return doc


def run_roles_one(situation):
    from openfisca_core.simulations.simulation_builder import SimulationBuilder
    sim = SimulationBuilder().build_from_entities(roles_system(), situation)
    out = {}
    for names, pop in ((ROLE_PERSON_VARS, sim.persons), (ROLE_GROUP_VARS, sim.populations["household"])):
        for name in names:
            values = sim.calculate(name, "2018-01")
            out[name] = {str(i): float(v) for i, v in zip(pop.ids, values)}
    return out


def run_roles(case):
    runs = []
    with warnings.catch_warnings():
        warnings.simplefilter("ignore")
        for which in (0, 1, None):
            try:
                runs.append(run_roles_one(roles_situation(case, which)))
            except Exception as e:  # noqa: BLE001
                runs.append(Err(errkind(e), f"{type(e).__name__}: {e}"[:200]))
    return {"roles": runs}


def oracle_roles(case, obs):
    a1, a2, m = obs["roles"]
    for k, small in enumerate((a1, a2)):
        tag = f"merged-vs-situation{k + 1}-builder-roles"
        if isinstance(small, Err):
            return f"driver: the situation alone fails: {small.kind} {small.msg}"
        if isinstance(m, Err):
            return f"{tag}: build_from_entities fails on the two situations together ({m.kind} {m.msg})"
        for name, by_id in small.items():
            if sorted(by_id) != sorted(i for i in m[name] if i.startswith(f"s{k}_")):
                return (f"{tag}: entities of {name}: alone {sorted(by_id)}, together "
                        f"{sorted(i for i in m[name] if i.startswith(f's{k}_'))}")
            for ident, v in by_id.items():
                if m[name][ident] != v:
                    return f"{tag}: {name} of {ident} is {m[name][ident]} together, {v} alone"
    return None


def small_system():
    """x (person input), over = x > 0.1, hx = household sum of x, nb = household size, hx_p = hx projected"""
    from openfisca_core import periods
    from openfisca_core.variables import Variable
    tbs = rules.build_system({"vars": [], "params": []}, set())
    person, household = tbs.person_entity, tbs.group_entities[0]
    month = periods.DateUnit.MONTH

    def var(name, ent, ty, f=None):
        attrs = {"value_type": ty, "entity": ent, "definition_period": month}
        if f is not None:
            attrs["formula"] = f
        tbs.add_variable(type(name, (Variable,), attrs))
    var("x", person, float)
    var("over", person, bool, lambda p, period: p("x", period) > 0.1)
    var("hx", household, float, lambda h, period: h.sum(h.members("x", period)))
    var("nb", household, int, lambda h, period: h.nb_persons())
    var("hx_p", person, float, lambda p, period: p.household("hx", period))
    return tbs


def read_small(sim):
    def show(a):
        return [repr(float(v)) for v in a]
    stored = sim.get_array("x", "2018-01")
    return {"person": {"stored x": show(stored), "dtype of stored x": [str(stored.dtype)] * len(stored),
                       "x > 0.1": show(sim.calculate("over", "2018-01")),
                       "household sum projected": show(sim.calculate("hx_p", "2018-01"))},
            "group": {"household sum": show(sim.calculate("hx", "2018-01")),
                      "household size": show(sim.calculate("nb", "2018-01"))}}


def run_f32(case):
    n1, n2 = len(case["pop1"]["ids"]), len(case["pop2"]["ids"])
    runs = []
    with warnings.catch_warnings(), numpy.errstate(all="ignore"):
        warnings.simplefilter("ignore")
        for pop, x in ((case["pop1"], case["x1"]), (case["pop2"], case["x2"]),
                       (merged_pop(case), scatter([(case["f1"], case["x1"]), (case["f2"], case["x2"])], n1 + n2))):
            try:
                sim = rules.build_simulation(small_system(), pop, {}, {"max_loops": 1})
                sim.set_input("x", "2018-01", numpy.array([float(v) for v in x], dtype=numpy.float64))
                runs.append(read_small(sim))
            except Exception as e:  # noqa: BLE001
                runs.append(Err(errkind(e), f"{type(e).__name__}: {e}"[:200]))
    return {"f32": runs}


def compare_small(tag, m, small, fp, fg, n_big, c_big):
    if isinstance(small, Err):
        return f"driver: the situation alone fails: {small.kind} {small.msg}"
    if isinstance(m, Err):
        return f"{tag}: together {m!r} {m.msg}, alone values"
    for level, f, total in (("person", fp, n_big), ("group", fg, c_big)):
        for name in small[level]:
            msg = compare_arrays(f"{tag}: {name}", m[level][name], small[level][name], f, total)
            if msg:
                return msg
    return None


def oracle_f32(case, obs):
    a1, a2, m = obs["f32"]
    n = len(case["pop1"]["ids"]) + len(case["pop2"]["ids"])
    c = case["pop1"]["count"] + case["pop2"]["count"]
    return (compare_small("merged-vs-situation1-float32", m, a1, case["f1"], case["g1"], n, c)
            or compare_small("merged-vs-situation2-float32", m, a2, case["f2"], case["g2"], n, c))


def run_scale(case):
    """situation 1 alone and together with n2 single-person households, before and after them: through
    numpy membership arrays (like rules.build_simulation) and, every person living alone, through
    build_from_entities without declared households"""
    from openfisca_core.simulations.simulation_builder import SimulationBuilder
    pop1, n2 = case["pop1"], case["n2"]
    n1, c1 = len(pop1["ids"]), pop1["count"]
    x2 = numpy.random.RandomState(case["seed2"]).randint(1, 900, size=n2)
    out = {}
    with warnings.catch_warnings():
        warnings.simplefilter("ignore")

        def direct(pop, x):
            sim = rules.build_simulation(small_system(), pop, {}, {"max_loops": 1})
            sim.set_input("x", "2018-01", numpy.asarray(x, dtype=numpy.float64))
            return read_small(sim)

        def built(ids, x):
            sim = SimulationBuilder().build_from_entities(small_system(), {"persons": {i: {} for i in ids}})
            sim.set_input("x", "2018-01", numpy.asarray(x, dtype=numpy.float64))
            return read_small(sim)
        ids1, ids2 = [f"a{i}" for i in range(n1)], [f"b{i}" for i in range(n2)]
        steps = {
            "arrays alone": lambda: direct(pop1, case["x1"]),
            "arrays first": lambda: direct({"count": c1 + n2, "ids": pop1["ids"] + [c1 + j for j in range(n2)],
                                            "roles": pop1["roles"] + [0] * n2}, list(case["x1"]) + list(x2)),
            "arrays last": lambda: direct({"count": c1 + n2, "ids": list(range(n2)) + [n2 + g for g in pop1["ids"]],
                                           "roles": [0] * n2 + pop1["roles"]}, list(x2) + list(case["x1"])),
            "builder alone": lambda: built(ids1, case["x1"]),
            "builder first": lambda: built(ids1 + ids2, list(case["x1"]) + list(x2)),
            "builder last": lambda: built(ids2 + ids1, list(x2) + list(case["x1"])),
        }
        for name, fn in steps.items():
            try:
                r = fn()
                # keep situation 1's part only (the observation stays small)
                if name.endswith("first"):
                    r = {lv: {k: v[:(n1 if lv == "person" else (c1 if name.startswith("arrays") else n1))]
                              for k, v in d.items()} for lv, d in r.items()}
                elif name.endswith("last"):
                    r = {lv: {k: v[n2:] for k, v in d.items()} for lv, d in r.items()}
                out[name] = r
            except Exception as e:  # noqa: BLE001
                out[name] = Err(errkind(e), f"{type(e).__name__}: {e}"[:200])
    return {"scale": out}


def oracle_scale(case, obs):
    o = obs["scale"]
    for path in ("arrays", "builder"):
        alone = o[f"{path} alone"]
        if isinstance(alone, Err):
            return f"driver: the situation alone fails: {alone.kind} {alone.msg}"
        for where in ("first", "last"):
            m = o[f"{path} {where}"]
            tag = f"merged-vs-situation1-scale: {path}, situation 1 {where}, with {case['n2']} other households"
            if isinstance(m, Err):
                return f"{tag}: together {m!r} {m.msg}"
            for level in ("person", "group"):
                for name, v in alone[level].items():
                    if m[level][name] != v:
                        return f"{tag}: {name}: together {m[level][name]}, alone {v}"
    return None


def axes_document(case, parts, placements):
    """JSON situation with axes.  parts: [(pop, sit)...]; placements: [(person placement, group placement)...]
    (position of every person / household of each part in the document)"""
    n = sum(len(pop["ids"]) for pop, _s in parts)
    c = sum(pop["count"] for pop, _s in parts)
    porder = scatter([(fp, [(k, i) for i in range(len(parts[k][0]["ids"]))]) for k, (fp, _fg) in enumerate(placements)], n)
    gorder = scatter([(fg, [(k, g) for g in range(parts[k][0]["count"])]) for k, (_fp, fg) in enumerate(placements)], c)
    persons, households = {}, {}
    for k, i in porder:
        d = {}
        for name in ("x", "y"):
            if parts[k][1]["vals"][name][i] is not None:
                d[name] = {"2018-01": float(parts[k][1]["vals"][name][i])}
        persons[f"s{k}_p{i}_"] = d
    for k, g in gorder:
        pop = parts[k][0]
        d = {"parents": [], "children": [], "heads": []}
        for i, gi in enumerate(pop["ids"]):
            if gi == g:
                d[["parents", "children", "heads"][pop["roles"][i]]].append(f"s{k}_p{i}_")
        households[f"s{k}_h{g}_"] = d
    axes = [{"name": a["name"], "count": case["count"], "min": a["min"], "max": a["max"], "period": "2018-01",
             "index": placements[k][0][a["index"]]}
            for k, (_pop, sit) in enumerate(parts) for a in sit["axes"]]
    return {"persons": persons, "households": households, "axes": [axes]}


def run_axes_one(doc):
    from openfisca_core import periods
    from openfisca_core.simulations.simulation_builder import SimulationBuilder
    from openfisca_core.variables import Variable
    tbs = small_system()
    person, household = tbs.person_entity, tbs.group_entities[0]
    tbs.add_variable(type("y", (Variable,), {"value_type": float, "entity": person,
                                             "definition_period": periods.DateUnit.MONTH}))
    tbs.add_variable(type("hy", (Variable,), {"value_type": float, "entity": household,
                                              "definition_period": periods.DateUnit.MONTH,
                                              "formula": lambda h, period: h.sum(h.members("y", period), role=h.entity.roles[0])}))
    sim = SimulationBuilder().build_from_entities(tbs, doc)
    hh = sim.populations["household"]

    def show(name):
        return [repr(float(v)) for v in sim.calculate(name, "2018-01")]
    return {"person": {"x": show("x"), "y": show("y"), "household sum of x projected": show("hx_p"),
                       "role": [r.key for r in hh.members_role]},
            "group": {"household sum of x": show("hx"), "household size": show("nb"),
                      "household sum of the parents' y": show("hy")}}


def run_axes(case):
    n1, c1 = len(case["pop1"]["ids"]), case["pop1"]["count"]
    n2, c2 = len(case["pop2"]["ids"]), case["pop2"]["count"]
    p1, p2 = (case["pop1"], case["sit1"]), (case["pop2"], case["sit2"])
    docs = [axes_document(case, [p1], [(list(range(n1)), list(range(c1)))]),
            axes_document(case, [p2], [(list(range(n2)), list(range(c2)))]),
            axes_document(case, [p1, p2], [(case["f1"], case["g1"]), (case["f2"], case["g2"])]),
            axes_document(case, [p1], [(case["sp"], case["sg"])])]
    runs = []
    with warnings.catch_warnings():
        warnings.simplefilter("ignore")
        for doc in docs:
            try:
                runs.append(run_axes_one(doc))
            except Exception as e:  # noqa: BLE001
                runs.append(Err(errkind(e), f"{type(e).__name__}: {e}"[:200]))
    return {"axes": runs}


def oracle_axes(case, obs):
    a1, a2, m, p = obs["axes"]
    n1, c1 = len(case["pop1"]["ids"]), case["pop1"]["count"]
    n2, c2 = len(case["pop2"]["ids"]), case["pop2"]["count"]
    cnt = case["count"]

    def replicated(f, block):
        return [r * block + j for r in range(cnt) for j in f]
    for tag, big, small, fp, fg, nb, cb in (
            ("merged-vs-situation1-axes", m, a1, case["f1"], case["g1"], n1 + n2, c1 + c2),
            ("merged-vs-situation2-axes", m, a2, case["f2"], case["g2"], n1 + n2, c1 + c2),
            ("permuted-axes", p, a1, case["sp"], case["sg"], n1, c1)):
        msg = compare_small(f"{tag} ({cnt} replicates, every replicate in turn)", big, small,
                            replicated(fp, nb), replicated(fg, cb), cnt * nb, cnt * cb)
        if msg:
            return msg
    return None


def run_impl(case):
    if case.get("kind") == "axes":
        return run_axes(case)
    if case.get("kind") == "f32":
        return run_f32(case)
    if case.get("kind") == "scale":
        return run_scale(case)
    if case.get("kind") == "roles":
        return run_roles(case)
    if case.get("kind") == "divide":
        return run_divide(case)
    if case.get("kind") == "first":
        return run_first(case)
    if case.get("kind") == "spell":
        return run_spell(case)
    rest = case["requests"]
    runs = []
    mp, minp = merged_pop(case), merged_inputs(case)
    for pop, inp in ((case["pop1"], case["inp1"]), (case["pop2"], case["inp2"]),
                     (mp, minp), (permuted_pop(case), permuted_inputs(case))):
        o = rules.run_case({"sys": case["sys"], "pop": pop, "cfg": {}, "requests": as_sets(inp) + rest})
        if o == "skip" or any(isinstance(x[0], list) and x[0] and x[0][0] == "divide-mismatch" for x in o):
            _SKIP.add(_key(case))
            return "skip"
        runs.append(o)
    mb = None
    if case.get("builder") and builder_applicable(case):
        with warnings.catch_warnings():
            warnings.simplefilter("ignore")
            try:
                mb = run_builder(case, mp, minp)
            except rules.Inexact:
                _SKIP.add(_key(case))
                return "skip"
            except Exception as e:  # noqa: BLE001
                mb = Err(errkind(e), f"{type(e).__name__}: {e}"[:200])
    return {"runs": runs, "builder": mb}


def obs_for_coq(case, obs):
    if case.get("kind") in ORACLE_ONLY:
        return "skip"          # oracle-only stream (the set-input rules are C16's model)
    if obs == "skip" or isinstance(obs, Err):
        return obs
    return obs["runs"]


# ---------------------------------------------------------------------------------------
# Coq rendering
# ---------------------------------------------------------------------------------------

def cnats(l):
    return clist([rules.cnat(x) for x in l])


def cinputs(inp):
    return clist([f"(({rules.cnat(v)}, {rules.cperiod(p)}), {clist([cz(z) for z in a])})" for v, p, a in inp])


def coq_case(case):
    if case.get("kind") in ORACLE_ONLY or _key(case) in _SKIP:
        return "CSkip"
    return (f"(CInd {rules.csys(case['sys'], None)} {rules.cpop(case['pop1'])} {rules.cpop(case['pop2'])} "
            f"{cinputs(case['inp1'])} {cinputs(case['inp2'])} "
            f"{cnats(case['f1'])} {cnats(case['f2'])} {cnats(case['g1'])} {cnats(case['g2'])} "
            f"{cnats(case['sp'])} {cnats(case['sg'])} {clist([rules.crequest(r) for r in case['requests']])})")


# ---------------------------------------------------------------------------------------
# oracle: the property's two sentences on the implementation's own answers
# ---------------------------------------------------------------------------------------

def pick(f, arr, total):
    """arr[f] for an array over the merged population of `total` entities"""
    if len(arr) != total:
        return ("shape", len(arr), total)
    return [arr[j] for j in f]


def compare_arrays(what, big, small, f, total):
    got = pick(f, big, total)
    if got != small:
        return f"{what}: together {big} -> this situation's entities {got}, alone {small}"
    return None


def compare_answer(what, r, a_big, a_small, f, total):
    if isinstance(a_big, Err) or isinstance(a_small, Err):
        if a_big != a_small:
            return f"{what}: together {a_big!r}, alone {a_small!r}"
        return None
    if a_big is None or a_small is None:
        return None if a_big is a_small else f"{what}: together {a_big}, alone {a_small}"
    if r[0] == "div":
        if a_big[1] != a_small[1]:
            return f"{what}: denominators {a_big[1]} / {a_small[1]}"
        return compare_arrays(what, a_big[0], a_small[0], f, total)
    return compare_arrays(what, a_big, a_small, f, total)


def compare_runs(tag, case, reqs, big, small, fp, fg, n_big, c_big):
    """big: observations of the simulation containing the entities of `small` at positions fp / fg"""
    if len(big) != len(small):
        return f"{tag}-shape: {len(big)} / {len(small)} observations"
    for k, (r, ob, os_) in enumerate(zip(reqs, big, small)):
        person = ent_of(case, r[1]) == "person" if r[0] != "switch" else True
        f, total = (fp, n_big) if person else (fg, c_big)
        msg = compare_answer(f"{tag}-answer: request {k} {r[:3]}", r, ob[0], os_[0], f, total)
        if msg:
            return msg
        if ob[1] != os_[1]:
            return f"{tag}-stack: request {k}: depth {ob[1]} / {os_[1]}"
        kb, ks = [e[0] for e in ob[2]], [e[0] for e in os_[2]]
        if kb != ks:
            return f"{tag}-holders: after request {k} {r[:3]}: known periods differ: {kb} / {ks}"
        for (key, ab), (_k, as_) in zip(ob[2], os_[2]):
            person = ent_of(case, key[0]) == "person"
            f, total = (fp, n_big) if person else (fg, c_big)
            msg = compare_arrays(f"{tag}-cache: after request {k} {r[:3]}, holder v{key[0]} period {key[1:]}",
                                 ab, as_, f, total)
            if msg:
                return msg
    return None


def oracle(case, obs):
    if obs == "skip":
        return None
    if isinstance(obs, Err):
        return f"driver: {obs.kind} {obs.msg}"
    if case.get("kind") == "divide":
        return oracle_divide(case, obs)
    if case.get("kind") == "first":
        return oracle_first(case, obs)
    if case.get("kind") == "roles":
        return oracle_roles(case, obs)
    if case.get("kind") == "f32":
        return oracle_f32(case, obs)
    if case.get("kind") == "axes":
        return oracle_axes(case, obs)
    if case.get("kind") == "scale":
        return oracle_scale(case, obs)
    if case.get("kind") == "spell":
        return oracle_spell(case, obs)
    a1, a2, m, p = obs["runs"]
    n1, n2 = len(case["pop1"]["ids"]), len(case["pop2"]["ids"])
    c1, c2 = case["pop1"]["count"], case["pop2"]["count"]
    reqs1 = as_sets(case["inp1"]) + case["requests"]
    msg = compare_runs("merged-vs-situation1", case, reqs1, m, a1, case["f1"], case["g1"], n1 + n2, c1 + c2)
    if msg:
        return msg
    msg = compare_runs("merged-vs-situation2", case, reqs1, m, a2, case["f2"], case["g2"], n1 + n2, c1 + c2)
    if msg:
        return msg
    msg = compare_runs("permuted", case, reqs1, p, a1, case["sp"], case["sg"], n1, c1)
    if msg:
        return msg
    mb = obs["builder"]
    if mb is not None:
        if isinstance(mb, Err):
            return f"builder: build_from_entities failed on the merged situation: {mb.kind} {mb.msg}"
        mp = merged_pop(case)
        built, outs = mb
        if built != [mp["count"], mp["ids"], mp["roles"], n1 + n2]:
            return f"builder-population: built {built}, described {[mp['count'], mp['ids'], mp['roles'], n1 + n2]}"
        tail = m[len(case["inp1"]):]
        if outs != tail:
            for k, (x, y) in enumerate(zip(outs, tail)):
                if x != y:
                    return (f"builder-run: request {k} {case['requests'][k][:3]}: through build_from_entities {x}, "
                            f"through set_input {y}")
            return "builder-run: different number of observations"
    return None


# ---------------------------------------------------------------------------------------
# evidence helpers
# ---------------------------------------------------------------------------------------

def nontrivial(case, obs):
    if obs == "skip" or isinstance(obs, Err):
        return False
    if case.get("kind") == "scale":
        return not any(isinstance(r, Err) for r in obs["scale"].values())
    if case.get("kind") in ORACLE_ONLY:
        return not any(isinstance(r, Err) for r in obs[case["kind"]])
    if not (rules.has_tag(case["sys"], "agg") or rules.has_tag(case["sys"], "project") or rules.has_tag(case["sys"], "nb")):
        return False
    m = obs["runs"][2]
    nset = len(case["inp1"])
    ran_formula = any(isinstance(o[0], list) for o in m[nset:])
    stored = len(m[-1][2]) > 0 if m else False
    return bool(ran_formula and stored)


def kind_ok(ent, e):
    """Merge.kind_ok: the hypothesis [kinded] of the theorems, evaluated on the generated system"""
    tag = e[0]
    if tag == "bin":
        return kind_ok(ent, e[2]) and kind_ok(ent, e[3])
    if tag == "not":
        return kind_ok(ent, e[1])
    if tag == "where":
        return all(kind_ok(ent, x) for x in e[1:4])
    if tag == "agg":
        return ent == "group" and kind_ok("person", e[3])
    if tag == "nb":
        return ent == "group"
    if tag == "project":
        return ent == "person" and kind_ok("group", e[2])
    return True


def kinded(sys):
    return all(kind_ok(v["ent"], e) for v in sys["vars"] for _s, e in v["formulas"])


def classify(case, obs):
    if case.get("kind") in ORACLE_ONLY:
        name = {"divide": "divide-rule", "first": "position-dependent primitives, interleaved households",
                "spell": "builder, differently spelled periods",
                "roles": "builder, first role with sub-roles, persons left out / no household declared",
                "f32": "float inputs float32 cannot represent next to huge / infinite ones",
                "scale": "more than 65536 households",
                "axes": "builder with axes, households without members in every position"}[case["kind"]]
        return name + " (oracle only)" + ("" if isinstance(obs, dict) else " driver-error")
    if not kinded(case["sys"]):
        return "NOT-KINDED (outside the theorems' hypothesis)"
    if obs == "skip":
        return "skipped-inexact"
    if isinstance(obs, Err):
        return "driver-error"
    kinds = sorted({o[0].kind for o in obs["runs"][2] if isinstance(o[0], Err)})
    tag = "/".join(case["modes"])
    grp = "group-ops" if (rules.has_tag(case["sys"], "agg") or rules.has_tag(case["sys"], "project")
                          or rules.has_tag(case["sys"], "nb")) else "element-wise"
    return f"{tag} {grp}" + (" builder" if obs["builder"] is not None else "") + ("+" + "+".join(kinds) if kinds else "")


def shrink(case, still_fails):
    """drop requests, then inputs, while the oracle still fails"""
    if case.get("kind") in ORACLE_ONLY:
        return None
    cur = json.loads(json.dumps(case))
    changed = True
    while changed:
        changed = False
        for k in range(len(cur["requests"]) - 1, -1, -1):
            c2 = json.loads(json.dumps(cur))
            del c2["requests"][k]
            if c2["requests"] and still_fails(c2):
                cur, changed = c2, True
        for k in range(len(cur["inp1"]) - 1, -1, -1):
            c2 = json.loads(json.dumps(cur))
            del c2["inp1"][k]
            del c2["inp2"][k]
            if still_fails(c2):
                cur, changed = c2, True
    return cur if cur != case else None
