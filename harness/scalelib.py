"""Shared helpers of the tax-scale checks (C08, C09).

* conversions Fraction <-> the numbers handed to the real classes, Coq renderers;
* an exact (Fraction) re-computation of what the code computes, instrumented to say
  whether every intermediate value is a binary64 number (then the implementation's
  float result IS that rational, whatever the evaluation order) - used only to decide
  HOW a real-valued result is compared with the Coq model (mode 0 exact / 1 quantised /
  2 not compared), never to judge the implementation;
* the naive mathematical definitions (eps = 0) used by the oracles, and the tolerance.
"""
from __future__ import annotations

import math
from fractions import Fraction as F

import numpy

from common import cbool, clist, copt, cq, cz

EPS = F(float(numpy.finfo(numpy.float64).eps))          # 2^-52
TOL = F(1, 10**9)
GRID = 10**6
MARGIN = F(1, 10**8)


# ---- numbers ---------------------------------------------------------------------------

def fr(x) -> F:
    """case number (string 'n/d' or int) -> Fraction"""
    return F(x)


def enc(x: F) -> str:
    return str(F(x))


def pynum(x: F, ints: bool):
    """Fraction -> the Python number given to the real classes."""
    x = F(x)
    if ints and x.denominator == 1:
        return int(x)
    v = float(x)
    assert F(v) == x, f"generator produced a non-binary64 input {x}"
    return v


def representable(x: F) -> bool:
    try:
        return F(float(x)) == x
    except OverflowError:
        return False


def representable32(x: F) -> bool:
    return F(float(numpy.float32(float(x)))) == x


def eff_eps(factor: F) -> F:
    """What the float addition `factor + numpy.finfo(float).eps` really adds to factor."""
    f = numpy.float64(float(factor))
    return F(float(f + numpy.finfo(numpy.float64).eps)) - F(float(f))


def tofr(v) -> F:
    """numpy / python float or int -> exact Fraction"""
    if isinstance(v, (numpy.floating, float)):
        if not math.isfinite(float(v)):
            raise ValueError("non-finite result")
        return F(float(v))
    return F(int(v))


def close(a: F, b: F, tol=TOL) -> bool:
    return abs(a - b) <= tol * max(1, abs(b))


def cell(v: F) -> int:
    return math.floor(v * GRID - F(1, 3))


def far_from_boundary(v: F) -> bool:
    x = v * GRID - F(1, 3)
    fl = math.floor(x)
    d = min(x - fl, fl + 1 - x) / GRID
    return d >= MARGIN * max(1, abs(v))


# ---- Coq renderers ---------------------------------------------------------------------

def cqs(xs) -> str:
    return clist([cq(fr(x)) for x in xs])


def ccalls(calls) -> str:
    return clist([f"({cq(fr(t))}, {cq(fr(v))})" for t, v in calls])


def cround(rd) -> str:
    return copt(rd, cz)


def czs(xs) -> str:
    return clist([cz(x) for x in xs])


# ---- reference build (what add_bracket calls produce) -----------------------------------

def ref_build(calls):
    """Sorted (threshold, value) list after the add_bracket calls; values summed per
    threshold in call order (exactness of the float sums is checked by the caller)."""
    d = {}
    for t, v in calls:
        t, v = fr(t), fr(v)
        d[t] = d.get(t, F(0)) + v
    return sorted(d.items())


def build_sums_exact(calls) -> bool:
    d = {}
    for t, v in calls:
        t, v = fr(t), fr(v)
        d[t] = d.get(t, F(0)) + v
        if not representable(d[t]):
            return False
    return True


# ---- rounding (numpy.round / numpy.around) -----------------------------------------------

def rint(x: F) -> int:
    f = math.floor(x)
    r = x - f
    if r < F(1, 2):
        return f
    if r > F(1, 2):
        return f + 1
    return f if f % 2 == 0 else f + 1


def around(d: int, x: F) -> F:
    if d >= 0:
        return F(rint(x * 10**d), 10**d)
    return F(rint(x / 10**(-d)) * 10**(-d))


class Track:
    """exactness / risk bookkeeping of one reference computation"""

    def __init__(self):
        self.exact = True      # every intermediate so far is a binary64 number
        self.risky = False     # a rounding decision may fall differently in floats

    def chk(self, x: F) -> F:
        if not representable(x):
            self.exact = False
        return x

    def around(self, d, x: F) -> F:
        scaled = x * 10**d if d >= 0 else x / 10**(-d)
        r = scaled - math.floor(scaled)
        if not (self.exact and d == 0):
            if abs(r - F(1, 2)) < F(1, 10**6):
                self.risky = True
        y = around(d, x)
        return self.chk(y)


def sum_any_order_exact(terms) -> bool:
    """True when every partial sum of the terms, in any order, is a binary64 number."""
    terms = [t for t in terms if t != 0]
    if not terms:
        return True
    den = 1
    for t in terms:
        den = max(den, t.denominator)
    if den & (den - 1):
        return False
    return sum(abs(t) for t in terms) * den < 2**53


# ---- reference computations (shifted thresholds, as the code) ---------------------------------

def ref_thresholds1(tr: Track, eps: F, factor: F, rd, ths):
    mult = factor + eps
    out = []
    for t in ths:
        x = tr.chk(mult * t)
        if rd is not None:
            x = tr.around(rd, x)
        out.append(x)
    return out


def ref_calc_mr(eps: F, factor: F, rd, br, b: F):
    """MarginalRateTaxScale.calc for one base. Returns (value, exact, risky)."""
    mult = factor + eps
    n = len(br)
    risky = False
    ths, ths_ok = [], []
    for t, _ in br:
        tr = Track()
        x = tr.chk(mult * t)
        if rd is not None:
            x = tr.around(rd, x)
        ths.append(x)
        ths_ok.append(tr.exact)
        risky = risky or tr.risky
    terms = []
    all_exact = True
    for i, (_, r) in enumerate(br):
        tr = Track()
        tr.exact = ths_ok[i] and (i + 1 >= n or ths_ok[i + 1])
        hi = ths[i + 1] if i + 1 < n else None
        m = b if hi is None else min(b, hi)
        a = max(tr.chk(m - ths[i]), 0)
        if rd is None:
            p = tr.chk(r * a)
        else:
            a = tr.around(rd, a)
            p = tr.around(rd, tr.chk(r * a))
        # a bracket of rate 0 contributes exactly 0 whatever the rounding of its clip
        if r != 0:
            risky = risky or tr.risky
            if not tr.exact:
                all_exact = False
        terms.append(p)
    exact = all_exact and sum_any_order_exact(terms)
    return sum(terms, F(0)), exact, risky


def ref_indices(eps: F, factor: F, rd, br, b: F):
    """bracket_indices for one base. Returns (index, risky)."""
    tr = Track()
    ths = ref_thresholds1(tr, eps, factor, rd, [t for t, _ in br])
    return sum(1 for t in ths if b - t >= 0) - 1, tr.risky


def ref_calc_la(br, b: F, f32_single=False):
    """LinearAverageRateTaxScale.calc for one base (finite thresholds). (value, exact)"""
    tr = Track()
    if len(br) == 1:
        v = b * br[0][1]
        ok = representable32(v) if f32_single else representable(v)
        return v, ok
    for i in range(len(br) - 1):
        (t0, r0), (t1, r1) = br[i], br[i + 1]
        if t0 <= b < t1:
            sl = tr.chk(tr.chk(r1 - r0) / tr.chk(t1 - t0))
            x = tr.chk(tr.chk(b - t0) * sl)
            y = tr.chk(r0 + x)
            return tr.chk(b * y), tr.exact
    # outside: every dummy is 0: base * (0 + (base - 0) * 0)
    return F(0), True


def mode_of(value: F, exact: bool, risky: bool) -> int:
    if risky:
        return 2
    if exact:
        return 0
    return 1 if far_from_boundary(value) else 2


def project(modes, vals):
    """implementation values (Fractions) -> what the model must reproduce under the modes"""
    out = []
    for m, v in zip(modes, vals):
        out.append(v if m == 0 else cell(v) if m == 1 else None)
    return out


# ---- naive mathematical definitions (eps = 0) for the oracles ------------------------------------

def def_marginal_rate(br, b: F, factor: F = F(1)) -> F:
    """sum over brackets of rate * length of the part of (-inf, b) inside the bracket"""
    total = F(0)
    for i, (t, r) in enumerate(br):
        lo = t * factor
        hi = br[i + 1][0] * factor if i + 1 < len(br) else None
        if b <= lo:
            part = F(0)
        elif hi is None or b <= hi:
            part = b - lo
        else:
            part = hi - lo
        total += r * part
    return total


def def_marginal_amount(br, b: F) -> F:
    return sum((a for t, a in br if t < b), F(0))


def def_single_amount(br, b: F, right: bool) -> F:
    for i, (t, a) in enumerate(br):
        hi = br[i + 1][0] if i + 1 < len(br) else None
        if not right and t <= b and (hi is None or b < hi):
            return a
        if right and t < b and (hi is None or b <= hi):
            return a
    return F(0)


def def_linear_average(br, b: F):
    """base * interpolated rate for t0 <= b < t_last; None elsewhere (not claimed)"""
    for i in range(len(br) - 1):
        (t0, r0), (t1, r1) = br[i], br[i + 1]
        if t0 <= b < t1:
            return b * (r0 + (b - t0) * (r1 - r0) / (t1 - t0))
    return None


def def_bracket_candidates(br, b: F, factor: F = F(1)):
    """Indices of the brackets that may be reported as 'containing' b (DESIGN C08 scope):
    factor 1: a base equal to a positive threshold is in the LOWER bracket, a base equal
    to a threshold <= 0 in the bracket starting there; with a factor the shift may be
    absorbed by the float addition (factor >= 2), so both neighbours are accepted on a
    scaled positive threshold.  Empty set: below the scale (not claimed)."""
    if factor <= 0:
        return set()
    ths = [t * factor for t, _ in br]
    on = [k for k, t in enumerate(ths) if t == b]
    if on:
        k = on[0]
        if ths[k] <= 0:
            return {k}
        if k == 0:
            return set()              # on a positive first threshold: below the scale
        return {k - 1} | ({k} if factor != 1 else set())
    strict = [k for k, t in enumerate(ths) if t < b]
    return {max(strict)} if strict else set()
