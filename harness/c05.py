"""C05 - period and instant text forms round-trip and are canonical.

Two streams of cases:
 (a) printing: random and boundary aligned periods of all six units are printed with the
     real Period.__str__, the text is parsed back with periods.period and printed again;
     instants likewise; batches of distinct aligned periods are printed to search for
     collisions; batches are also written through OnDiskStorage (file name = text) and
     restored.
 (b) strings: grammar-generated strings, every single-character edit of valid strings, the
     rejection classes of the property text, random short strings over the grammar alphabet
     are given to periods.period / periods.instant.

The model (coq/model/PeriodStr.v) must reproduce every observation exactly.  The oracle
evaluates the property on the implementation's answers with datetime as an independent
calendar and its own reading of the rejection classes (never the model).
"""
from __future__ import annotations

import datetime
import re
import tempfile

import numpy

from openfisca_core import periods
from openfisca_core.periods import DateUnit as U
from openfisca_core.periods import Instant, Period

from common import Err, clist, cstr, cz, guarded

PROP = "C05"
COQ_HEADER = "From Verif Require Import Cal Period PeriodStr Corr_C05."
COQ_RUN = "Corr_C05.run"
SHARD = 500
ANCHORS = ["openfisca_core/periods/period_.py", "openfisca_core/periods/instant_.py",
           "openfisca_core/periods/helpers.py", "openfisca_core/periods/_parsers.py",
           "openfisca_core/periods/date_unit.py", "openfisca_core/types.py",
           "openfisca_core/data_storage/on_disk_storage.py"]
RULE = ("(a) aligned periods (first of month for month/year, Monday for week) of the six units drawn from "
        "calendar boundary classes (29 Feb, month ends, ISO week 1 starting in December, week 53, years 1000 and "
        "9999) and uniformly random dates x a size ladder (1, 2, 9..13, 24, 99..101, 2^31, 10^20): printed, parsed "
        "back, printed again; instants likewise; batches of distinct aligned same-unit periods printed together and "
        "stored/restored through OnDiskStorage; unaligned starts and non-positive sizes are compared with the model "
        "only. (b) strings: grammar-generated '[unit:]date[:size]' with boundary-heavy fields, every "
        "single-character deletion/substitution/insertion (alphabet 0-9 - : W + _ space a e) of twelve valid texts, "
        "the rejection classes of the statement (impossible dates incl. week 53 of 52-week years, unit lighter than "
        "the date's precision, non-integer size, unknown unit, extra fields, empty fields), random short strings. "
        "(0) 150 sequences run in ONE process each: every accepted spelling of a day (ISO date, week date with and "
        "without weekday, month, year, unit-prefixed forms) and every other accepted argument type (datetime.date, "
        "datetime with time and zone, pendulum date / datetime, Instant, Period, tuple, list, int) given to "
        "periods.instant / periods.period in random order, the parser's own result printed "
        "and parsed back, then the instant and periods of that day and its neighbours built afresh and printed: "
        "printing must not depend on what was parsed before. "
        "A case is non-trivial when it yields a value (not an error) and is distinct as (op, arguments)")
TRUSTED = ["pendulum 3.2 parse(text, exact=True) (Rust ISO-8601 parser + fallback regex), datetime.date validity, "
           "Python int(str)/str(int)/format/split/lower and the re module are modelled by PeriodStr.v, covered by the "
           "correspondence only"]
ASSUMPTIONS = ["strings are printable ASCII (non-ASCII digits/spaces accepted by \\d and int() are not modelled or generated)",
               "round trip claimed for aligned starts, size >= 1, years 1000..9999 (str(year) is not zero-padded)",
               "'unit finer than the precision of the date' is read with the engine's unit weights "
               "(weekday = day < week = month < year): 'week:2014-01' is accepted, modelled, not claimed",
               "int() sizes such as '+3', '-3', '0', ' 3', '1_0' are integers: accepted, modelled, not a rejection class"]

UNITS = [U.WEEKDAY, U.WEEK, U.DAY, U.MONTH, U.YEAR, U.ETERNITY]
UCODE = {u: i for i, u in enumerate(UNITS)}
UCOQ = ["Weekday", "Week", "Day", "Month", "Year", "Eternity"]
UNAME = ["weekday", "week", "day", "month", "year", "eternity"]
ETERNITY = [5, [-1, -1, -1], -1]
# the oracle's own copy of the unit ordering (DESIGN.md C05 scope)
WEIGHT = {"weekday": 100, "day": 100, "week": 200, "month": 200, "year": 300}


# ---- conversions -------------------------------------------------------------------

def mk_period(p):
    u, s, n = p
    return Period((UNITS[u], Instant(tuple(s)), n))


def enc_period(p):
    return [UCODE[p.unit], [p.start[0], p.start[1], p.start[2]], p.size]


def cdate(d):
    return f"({cz(d[0])}, {cz(d[1])}, {cz(d[2])})"


def cperiod(p):
    return f"({UCOQ[p[0]]}, {cdate(p[1])}, {cz(p[2])})"


def coq_step(c):
    op = c["op"]
    if op == "show":
        return f"(KShow {cperiod(c['p'])})"
    if op == "ishow":
        return f"(KShowInst {cdate(c['c'])})"
    if op == "parse":
        return f"(KParse {cstr(c['s'])})"
    if op == "iparse":
        return f"(KParseInst {cstr(c['s'])})"
    if op == "round":
        return f"(KRound {cperiod(c['p'])})"
    if op == "iround":
        return f"(KRoundInst {cdate(c['c'])})"
    if op == "many":
        return f"(KShowMany {clist([cperiod(p) for p in c['ps']])})"
    if op == "disk":
        return f"(KDisk {clist([cperiod(p) for p in c['ps']])})"
    if op == "parseshow":
        return f"(KParseShow {cstr(c['s'])})"
    if op == "iparseshow":
        return f"(KParseShowInst {cstr(c['s'])})"
    if op == "buildshow":
        return f"(KBuildShow {cinput(c['v'])})"
    if op == "ibuildshow":
        return f"(KBuildShowInst {cinput(c['v'])})"
    raise ValueError(op)


DATE_LIKE = ("date", "datetime", "datetime_tz", "pdate", "pdatetime", "pdatetime_tz")


def cinput(v):
    t, x = v["t"], v.get("v")
    if t in DATE_LIKE:
        return f"(IDate {cdate(x[:3])})"
    if t == "instant":
        return f"(IInstant {cdate(x)})"
    if t == "period":
        return f"(IPeriod {cperiod(x)})"
    if t in ("tuple", "list"):
        return f"(ISeq {clist([cz(i) for i in x])})"
    if t == "int":
        return f"(IInt {cz(x)})"
    if t == "str":
        return f"(IStr {cstr(x)})"
    if t == "none":
        return "INone"
    raise ValueError(t)


def mk_input(v):
    """The real Python object of an input description."""
    import pendulum
    t, x = v["t"], v.get("v")
    if t == "date":
        return datetime.date(*x[:3])
    if t == "datetime":
        return datetime.datetime(*x[:6])
    if t == "datetime_tz":
        return datetime.datetime(*x[:6], tzinfo=datetime.timezone(datetime.timedelta(minutes=v["tz"])))
    if t == "pdate":
        return pendulum.date(*x[:3])
    if t == "pdatetime":
        return pendulum.datetime(*x[:6], tz="UTC")
    if t == "pdatetime_tz":
        return pendulum.datetime(*x[:6], tz=v["tz"])
    if t == "instant":
        return Instant(tuple(x))
    if t == "period":
        return mk_period(x)
    if t == "tuple":
        return tuple(x)
    if t == "list":
        return list(x)
    if t in ("int", "str"):
        return x
    if t == "none":
        return None
    raise ValueError(t)


def coq_case(c):
    if c["op"] == "seq":
        return f"(KSeq {clist([coq_step(x) for x in c['steps']])})"
    return f"(KOne {coq_step(c)})"


# ---- implementation driver -------------------------------------------------------------

def run_impl(c):
    op = c["op"]
    if op == "show":
        return str(mk_period(c["p"]))
    if op == "ishow":
        return str(Instant(tuple(c["c"])))
    if op == "parse":
        return enc_period(periods.period(c["s"]))
    if op == "iparse":
        return list(periods.instant(c["s"]))
    if op == "round":
        return round_obs(mk_period(c["p"]))
    if op == "iround":
        return iround_obs(Instant(tuple(c["c"])))
    if op == "parseshow":
        q = periods.period(c["s"])
        return [enc_period(q), guarded(round_obs, q)]      # prints the very object the parser returned
    if op == "iparseshow":
        i = periods.instant(c["s"])
        return [list(i), guarded(iround_obs, i)]
    if op == "buildshow":
        q = periods.period(mk_input(c["v"]))
        return [enc_period(q), guarded(round_obs, q)]
    if op == "ibuildshow":
        i = periods.instant(mk_input(c["v"]))
        return [list(i), guarded(iround_obs, i)]
    if op == "seq":
        # all steps in this one process, in order: state kept by the implementation between
        # calls (caches) is exercised; the model has none
        return [guarded(run_impl, x) for x in c["steps"]]
    if op == "many":
        return [guarded(lambda p=p: str(mk_period(p))) for p in c["ps"]]
    if op == "disk":
        return run_disk(c["ps"])
    raise ValueError(op)


def round_obs(p):
    text = str(p)
    q = guarded(periods.period, text)
    if isinstance(q, Err):
        return [text, q]
    return [text, enc_period(q), guarded(str, q)]


def iround_obs(i):
    text = str(i)
    j = guarded(periods.instant, text)
    return [text, j if isinstance(j, Err) else list(j)]


def run_disk(ps):
    """put() one array per period under its printed name, restore() in a fresh storage."""
    from openfisca_core.data_storage import OnDiskStorage
    out = []
    with tempfile.TemporaryDirectory() as d:
        s1 = OnDiskStorage(d, preserve_storage_dir=True)
        for i, p in enumerate(ps):
            s1.put(numpy.array([i]), mk_period(p))
        s2 = OnDiskStorage(d, preserve_storage_dir=True)
        s2.restore()
        by_name = {}
        for key, path in s2._files.items():
            by_name[path.rsplit("/", 1)[1][:-4]] = key
        for i, p in enumerate(ps):
            text = str(mk_period(p))
            key = by_name.get(text)
            got = None if key is None else s2.get(key)
            out.append([text, None if key is None else enc_period(key),
                        None if got is None else [int(x) for x in got]])
    return out


def obs_for_coq(c, o):
    if c["op"] == "seq" and not isinstance(o, Err):
        return [obs_for_coq(x, y) for x, y in zip(c["steps"], o)]
    if c["op"] == "disk" and not isinstance(o, Err):
        return [[t, k] for t, k, _ in o]      # the stored values are for the oracle only
    return o


# ---- independent calendar and reading of the statement --------------------------------------

def D(t):
    return datetime.date(*t)


def span(p):
    """(first ordinal, exclusive end as an ordinal-like key) of the days a period denotes;
    exact, also beyond year 9999 (proleptic arithmetic on (year, month) pairs)."""
    u, s, n = p
    d = D(s)
    if u in (3, 4):
        months = n * (12 if u == 4 else 1)
        return ("m", d.toordinal(), s[0] * 12 + s[1] - 1 + months, s[2])
    days = n * 7 if u == 1 else n
    return ("d", d.toordinal(), d.toordinal() + days)


def aligned(u, s):
    if u in (3, 4):
        return s[2] == 1
    if u == 1:
        return D(s).isoweekday() == 1
    return True


def claimed(p):
    """Is the period in the domain of the round-trip / injectivity claims?"""
    u, s, n = p
    if u == 5:
        return p == ETERNITY
    try:
        D(s)
    except ValueError:
        return False
    return 1000 <= s[0] <= 9999 and n >= 1 and aligned(u, s)


def canon(p):
    u, s, n = p
    if u == 3 and n == 12:
        return [4, list(s), 1]
    return [u, list(s), n]


def weeks_in_year(y):
    return datetime.date(y, 12, 28).isocalendar()[1]


def date_field(f):
    """Classify the date field of a text: ('ok', precision) | ('impossible',) | ('other',)"""
    m = re.fullmatch(r"([0-9]{4})(?:-([0-9]{2})(?:-([0-9]{2}))?)?", f)
    if m:
        y, mo, d = int(m.group(1)), m.group(2), m.group(3)
        if mo is None:
            return ("impossible",) if y == 0 else ("ok", "year")
        try:
            datetime.date(y, int(mo), 1 if d is None else int(d))
        except ValueError:
            return ("impossible",)
        return ("ok", "month" if d is None else "day")
    m = re.fullmatch(r"([0-9]{4})-W([0-9]{2})(?:-([0-9]))?", f)
    if m:
        y, w, wd = int(m.group(1)), int(m.group(2)), m.group(3)
        if y == 0 or w == 0 or (wd is not None and not 1 <= int(wd) <= 7):
            return ("impossible",)
        if w > weeks_in_year(y):
            return ("impossible",)
        try:
            datetime.date.fromisocalendar(y, w, 1 if wd is None else int(wd))
        except ValueError:
            return ("impossible",)
        return ("ok", "week" if wd is None else "weekday")
    return ("other",)


def must_reject(s):
    """Name of the rejection class of the statement the string falls into, or None."""
    if s.lower() == "eternity":
        return None
    f = s.split(":")
    if len(f) >= 4:
        return "extra-fields"
    if any(x == "" for x in f):
        return "empty-field"
    if len(f) == 1:
        return "impossible-date" if date_field(s) == ("impossible",) else None
    unit, date = f[0], f[1]
    if unit not in UNAME:
        return "unknown-unit"
    if len(f) == 3 and not re.fullmatch(r"[ ]*[+-]?[0-9_]+[ ]*", f[2]):
        return "non-integer-size"
    k = date_field(date)
    if k == ("impossible",):
        return "impossible-date"
    if k[0] == "ok" and unit != "eternity" and WEIGHT[k[1]] > WEIGHT[unit]:
        return "unit-finer-than-date"
    return None


def text_denotes(s):
    """(unit code, start date, size) that a well-formed text denotes, read independently of
    the implementation (datetime), or None when this reading does not cover the text."""
    f = s.split(":")
    if not 1 <= len(f) <= 3 or must_reject(s) is not None:
        return None
    date = f[-1] if len(f) == 1 else f[1]
    k = date_field(date)
    if k[0] != "ok":
        return None
    if "W" in date:
        d = datetime.date.fromisocalendar(int(date[:4]), int(date[6:8]), int(date[9]) if len(date) > 8 else 1)
    else:
        parts = [int(x) for x in date.split("-")] + [1, 1]
        d = datetime.date(*parts[:3])
    unit = k[1] if len(f) == 1 else f[0]
    if unit not in UNAME[:5]:
        return None
    size = 1
    if len(f) == 3:
        if not re.fullmatch(r"[+-]?[0-9]+", f[2]):
            return None
        size = int(f[2])
    return [UNAME.index(unit), [d.year, d.month, d.day], size]


def oracle(c, o):
    op = c["op"]
    if op == "seq":
        if isinstance(o, Err):
            return f"seq: raised {o.kind}"
        for i, (x, y) in enumerate(zip(c["steps"], o)):
            msg = oracle(x, y)
            if msg:
                before = [st.get("s") or st.get("p") or st.get("c") or st.get("v") for st in c["steps"][:i]]
                return f"{msg} [step {i} of a sequence in one process, after {before}]"
        return None
    if op == "parseshow":
        cls = must_reject(c["s"])
        if isinstance(o, Err):
            return None
        if cls is not None:
            return f"accepts-{cls}: {c['s']!r} is parsed as {o[0]}"
        exp = text_denotes(c["s"])
        if exp is not None and o[0] != exp:
            return f"denotes: {c['s']!r} denotes {exp}, parsed as {o[0]}"
        # what the parser returned must print and round-trip like any other period
        return oracle({"op": "round", "p": o[0]}, o[1])
    if op in ("buildshow", "ibuildshow"):
        v = c["v"]
        t, x = v["t"], v.get("v")
        if t == "str":
            return oracle({"op": "parseshow" if op == "buildshow" else "iparseshow", "s": x}, o)
        # what the argument denotes, read independently
        if t in DATE_LIKE or t == "instant":
            start, per = list(x[:3]), [2, list(x[:3]), 1]
        elif t == "period":
            start, per = list(x[1]), [x[0], list(x[1]), x[2]]
        elif t == "int":
            start, per = [x, 1, 1], [4, [x, 1, 1], 1]
        elif t in ("tuple", "list") and x:
            start, per = (list(x) + [1, 1, 1])[:3], None
        else:
            start, per = None, None
        exp = per if op == "buildshow" else start
        if isinstance(o, Err):
            return f"build: {v} denotes {exp} but raised {o.kind}" if exp is not None and t != "period" else None
        if exp is not None and o[0] != exp:
            return f"build: {v} denotes {exp}, got {o[0]}"
        if op == "buildshow":
            return oracle({"op": "round", "p": o[0]}, o[1])
        return oracle({"op": "iround", "c": o[0]}, o[1])
    if op == "iparseshow":
        if isinstance(o, Err):
            return None
        msg = oracle({"op": "iparse", "s": c["s"]}, o[0])
        return msg or oracle({"op": "iround", "c": o[0]}, o[1])
    if op == "round":
        p = c["p"]
        if not claimed(p):
            return None
        if isinstance(o, Err):
            return f"print: str() of {p} raised {o.kind}"
        if isinstance(o[1], Err):
            return f"roundtrip: {p} prints as {o[0]!r} which does not parse ({o[1].kind})"
        text, q, text2 = o
        exp = canon(p)
        if p[0] == 5:
            if q != ETERNITY:
                return f"roundtrip: eternity prints as {text!r} and parses as {q}"
        else:
            if q[0] != exp[0]:
                return f"roundtrip: {p} prints as {text!r} and parses with unit {UCOQ[q[0]]}, expected {UCOQ[exp[0]]}"
            try:
                same = span(q) == span(exp)
            except ValueError:
                same = False
            if not same:
                return f"roundtrip: {p} prints as {text!r} and parses as {q}: not the same days"
        if text2 != text:
            return f"reprint: {p} prints as {text!r}, parsed {q} prints as {text2!r}"
        return None
    if op == "iround":
        try:
            d = D(c["c"])
        except ValueError:
            return None
        if isinstance(o, Err):
            return f"iprint: str() of instant {c['c']} raised {o.kind}"
        if o[0] != d.isoformat():
            return f"iprint: instant {c['c']} prints as {o[0]!r}, ISO date is {d.isoformat()!r}"
        if o[1] != list(c["c"]):
            return f"iroundtrip: instant {c['c']} prints as {o[0]!r} and parses as {o[1]}"
        return None
    if op in ("many", "disk"):
        ps = c["ps"]
        if isinstance(o, Err):
            return f"{op}: raised {o.kind} on {ps}" if all(claimed(p) for p in ps) else None
        texts = [x if op == "many" else x[0] for x in o]
        seen = {}
        for p, t in zip(ps, texts):
            if not claimed(p) or isinstance(t, Err):
                continue
            key = (p[0], t)
            if key in seen and seen[key] != p:
                return f"collision: {seen[key]} and {p} both print as {t!r}"
            seen[key] = p
        if op == "disk":
            for i, (p, (t, key, val)) in enumerate(zip(ps, o)):
                if not claimed(p):
                    continue
                if key is None or val != [i]:
                    return f"disk: value {i} stored for {p} under {t!r} is restored as {val} (key {key})"
                exp = canon(p)
                if p[0] != 5 and (key[0] != exp[0] or span(key) != span(exp)):
                    return f"disk: {p} stored under {t!r} is restored for {key}"
        return None
    if op == "parse":
        cls = must_reject(c["s"])
        if cls is not None and not isinstance(o, Err):
            return f"accepts-{cls}: {c['s']!r} is parsed as {o}"
        return None
    if op == "iparse":
        k = date_field(c["s"])
        if k == ("impossible",) and not isinstance(o, Err):
            return f"accepts-impossible-date: instant {c['s']!r} is parsed as {o}"
        if k[0] == "ok" and not isinstance(o, Err):
            # a date text denotes that date
            m = c["s"]
            try:
                if "W" in m:
                    y, w = int(m[:4]), int(m[6:8])
                    exp = datetime.date.fromisocalendar(y, w, int(m[9]) if len(m) > 8 else 1)
                else:
                    parts = [int(x) for x in m.split("-")] + [1, 1]
                    exp = datetime.date(*parts[:3])
            except ValueError:
                return None
            if o != [exp.year, exp.month, exp.day]:
                return f"iparse: {m!r} denotes {exp}, parsed as {o}"
        return None
    return None


def nontrivial(c, o):
    if isinstance(o, Err):
        return False
    if c["op"] == "seq":
        return any(nontrivial(x, y) for x, y in zip(c["steps"], o))
    if c["op"] in ("parseshow", "iparseshow", "buildshow", "ibuildshow"):
        return True
    if c["op"] == "round":
        return not isinstance(o[1], Err)
    return True


def classify(c, o):
    op = c["op"]
    tag = op
    if op == "seq":
        return "seq:" + c["steps"][0]["op"] + ":" + str(len(c["steps"])) + (":" + o.kind if isinstance(o, Err) else "")
    if op in ("show", "round"):
        p = c["p"]
        tag += ":" + UCOQ[p[0]] + (":claimed" if claimed(p) else ":unclaimed")
    elif op == "parse":
        cls = must_reject(c["s"])
        tag += ":" + (cls or ("fields" + str(min(len(c["s"].split(":")), 4)))) + ":" + c.get("src", "")
    elif op in ("many", "disk"):
        tag += ":" + UCOQ[c["ps"][0][0]]
    if isinstance(o, Err):
        tag += ":" + o.kind
    elif op == "round" and isinstance(o[1], Err):
        tag += ":noparse"
    elif op in ("parse", "iparse"):
        tag += ":ok"
    return tag


# ---- generation -------------------------------------------------------------------------

BOUNDARY_MD = [(1, 1), (1, 2), (1, 3), (1, 4), (1, 5), (1, 6), (1, 7), (1, 31), (2, 1), (2, 28), (2, 29), (3, 1),
               (6, 30), (9, 9), (10, 10), (11, 30), (12, 1), (12, 25), (12, 26), (12, 27), (12, 28), (12, 29), (12, 30),
               (12, 31)]
BOUNDARY_Y = [1000, 1001, 1582, 1900, 1999, 2000, 2004, 2009, 2010, 2014, 2015, 2016, 2020, 2021, 2024, 2026, 2032,
              2100, 2400, 9998, 9999]
LADDER = [1, 1, 1, 1, 2, 3, 7, 9, 10, 11, 12, 12, 12, 13, 24, 52, 53, 99, 100, 101, 120, 1000, 2 ** 31, 10 ** 20]
EDIT_ALPHABET = "0123456789-:W+_ ae"
EDIT_SEEDS = ["2014", "2014-03", "2016-02-29", "2015-W53", "2020-W53-7", "year:2014-03", "year:2014:3",
              "month:2014-03:5", "day:2016-02-29:10", "week:2015-W01:2", "weekday:2015-W01-1:12", "ETERNITY"]


def boundary_dates():
    out = []
    for y in BOUNDARY_Y:
        for m, d in BOUNDARY_MD:
            try:
                datetime.date(y, m, d)
            except ValueError:
                continue
            out.append([y, m, d])
    return out


def rand_date(rng, lo=datetime.date(1000, 1, 1).toordinal(), hi=datetime.date(9999, 12, 31).toordinal()):
    if rng.random() < 0.5:
        lo, hi = datetime.date(1900, 1, 1).toordinal(), datetime.date(2100, 12, 31).toordinal()
    x = datetime.date.fromordinal(rng.randrange(lo, hi + 1))
    return [x.year, x.month, x.day]


def align(u, s, rng=None):
    if u == 4:
        if rng is not None and rng.random() < 0.6:
            return [s[0], 1, 1]
        return [s[0], s[1], 1]
    if u == 3:
        return [s[0], s[1], 1]
    if u == 1:
        d = D(s)
        d = d - datetime.timedelta(d.isoweekday() - 1)
        if d.year < 1000:
            d = d + datetime.timedelta(7)
        return [d.year, d.month, d.day]
    return list(s)


def single_edits(s, alphabet):
    out = []
    for i in range(len(s)):
        out.append(s[:i] + s[i + 1:])
        for ch in alphabet:
            if ch != s[i]:
                out.append(s[:i] + ch + s[i + 1:])
    for i in range(len(s) + 1):
        for ch in alphabet:
            out.append(s[:i] + ch + s[i:])
    return out


def grammar_string(rng):
    """[unit ':'] date [':' size] with boundary-heavy fields, mostly valid."""
    y = rng.choice(["0000", "0001", "0999", "1000", "2014", "2015", "2016", "2020", "2021", "9999",
                    "%04d" % rng.randrange(0, 10000)])
    shape = rng.randrange(7)
    if shape == 0:
        date = y
    elif shape == 1:
        date = y + "-" + rng.choice(["00", "01", "02", "09", "10", "12", "13", "1", "%02d" % rng.randrange(0, 20)])
    elif shape == 2:
        date = (y + "-" + rng.choice(["01", "02", "04", "12", "%02d" % rng.randrange(1, 13)]) + "-"
                + rng.choice(["00", "01", "28", "29", "30", "31", "32", "%02d" % rng.randrange(0, 40)]))
    elif shape == 3:
        date = y + "-W" + rng.choice(["00", "01", "09", "10", "52", "53", "54", "%02d" % rng.randrange(0, 60)])
    elif shape == 4:
        date = (y + "-W" + rng.choice(["01", "52", "53", "%02d" % rng.randrange(0, 56)]) + "-"
                + rng.choice("0123456789"))
    elif shape == 5:
        date = y + "-" + rng.choice("0123456789")
    else:
        date = rng.choice(["", "2014-", "-2014", "2014-W", "2014-W1", "2014-03-", "2014--03", "14-03", "20140301",
                           "2014-03-01-01", "2014-W01-1-1", "2014-w01", "W01", "2014-060", "eternity", "2014 "])
    r = rng.random()
    if r < 0.25:
        return date
    unit = rng.choice(UNAME[:5] * 4 + ["eternity", "ETERNITY", "Year", "years", "", "d", "2014", "quarter", " day",
                                       "weekdays", "DAY", "wee k"])
    if r < 0.5:
        return unit + ":" + date
    size = rng.choice(["1", "2", "3", "12", "0", "-1", "+3", "007", " 3", "3 ", "1_0", "1_", "_1", "1__0", "", "x",
                       "1.5", "1e3", "0x10", "3.0", "+", "-", "+-3", "1 2", "12345678901234567890", "3:", "3:4",
                       ":3", str(rng.randrange(1, 400))])
    return unit + ":" + date + ":" + size


def rejection_strings(rng):
    out = []
    # impossible dates, plain and inside the long form
    for y in (1900, 2014, 2015, 2016, 2000, 2100, 9999):
        for md in ("02-29", "02-30", "02-31", "04-31", "06-31", "09-31", "11-31", "01-32", "12-32", "00-01", "13-01",
                   "01-00"):
            t = f"{y:04d}-{md}"
            out += [t, "day:" + t, "day:" + t + ":3", "year:" + t, "weekday:" + t + ":2"]
    for y in list(range(2000, 2030)) + [1000, 1001, 9998, 9999, 4, 1]:
        t = f"{y:04d}-W53"
        out += [t, "week:" + t, "week:" + t + ":2", t + "-1", t + "-7", "weekday:" + t + "-3:4", "year:" + t]
    out += ["0000", "0000-01", "0000-01-01", "0000-W01", "0000-W01-1", "year:0000", "9999-W52-6", "9999-W52-7",
            "2015-W00", "2015-W54", "2015-W01-0", "2015-W01-8", "2015-3", "2015-1", "2015-7", "week:2015-3"]
    # unit lighter than the precision of the date (engine weights) and the accepted neighbours
    for unit in UNAME[:5]:
        for date in ("2014", "2014-03", "2014-03-05", "2014-W07", "2014-W07-3"):
            out += [unit + ":" + date, unit + ":" + date + ":" + rng.choice(["2", "3", "12"])]
    # non-integer sizes
    for sz in ("", "x", "1.5", "3.0", "1e3", "0x10", "one", "1/2", "1,5", "3a", "a3", "--3", "+-3", "+", "-",
               "3-", "1 2", "_", "1_", "_1", "1__0", "+ 3", "3+"):
        out += ["year:2014:" + sz, "month:2014-03:" + sz, "day:2014-03-05:" + sz, "week:2014-W07:" + sz]
    # integer sizes in unusual spellings (accepted: not a rejection class)
    for sz in ("+3", "-3", "0", "003", " 3", "3 ", " +1_2_3 ", "1_0", "-0", "+0"):
        out += ["year:2014:" + sz, "month:2014-03:" + sz]
    # unknown units
    for unit in ("years", "Year", "YEAR", "y", "quarter", "semester", "hour", "eternity", "ETERNITY", "2014", " year",
                 "year ", "weekdays", "weeks", "days", "mois"):
        out += [unit + ":2014", unit + ":2014-03:3", unit + ":2014-03-05"]
    # extra fields
    for t in ("year:2014:3:4", "year:2014:3:", "year:2014::3", "day:2014-03-05:3:day", "year:2014:1:1:1",
              "month:2014-03:1:2", "year:2014:::", "week:2014-W07:2:week", "year:2014-02-30:1:2"):
        out.append(t)
    # empty fields
    for t in ("", ":", "::", ":::", ":2014", ":2014:3", "year:", "year::", "year::3", "year:2014:", "day::",
              ":2014-03-05:3", "month::1", " ", "-", "W"):
        out.append(t)
    out += ["eternity", "ETERNITY", "Eternity", "eTERNITy", "eternity ", " eternity", "eternit", "eternity:",
            "eternity:2014", "ETERNITY:2014:1"]
    return out


def near_batches(rng, per_batch=40):
    """Lists of distinct aligned periods of one unit that are close to each other in text."""
    out = []
    for y in (1000, 2014, 2015, 2020, 9999):
        # months of one year x sizes
        ps = [[3, [y, m, 1], n] for m in (1, 2, 10, 11, 12) for n in (1, 2, 10, 11, 12, 13, 100, 101, 110)]
        out.append(ps[:per_batch])
        ps = [[4, [y, m, 1], n] for m in (1, 2, 10, 11, 12) for n in (1, 2, 10, 11, 12, 21, 100, 101)]
        out.append(ps[:per_batch])
        # all weeks of one ISO year
        d = datetime.date.fromisocalendar(min(max(y, 1001), 9998), 1, 1)
        ws = []
        while len(ws) < 54:
            ws.append([1, [d.year, d.month, d.day], rng.choice([1, 1, 2, 10])])
            d += datetime.timedelta(7)
        out.append(ws[:27])
        out.append(ws[27:])
        ws = [[1, list(w[1]), n] for w in ws[:8] + ws[-8:] for n in (1, 2, 11)]
        out.append(ws[:per_batch])
        # days / weekdays around the turn of the year and of February
        for u in (2, 0):
            ds = []
            yy = min(max(y, 1001), 9998)
            for base in (datetime.date(yy, 12, 22), datetime.date(yy, 2, 20), datetime.date(yy, 1, 1)):
                for k in range(0, 14, 1 if u == 0 else 2):
                    x = base + datetime.timedelta(k)
                    ds.append([u, [x.year, x.month, x.day], rng.choice([1, 1, 2, 11, 12])])
            out.append(ds[:per_batch])
    # random batches
    for u in (0, 1, 2, 3, 4):
        for _ in range(2):
            seen, ps = set(), []
            while len(ps) < per_batch:
                p = [u, align(u, rand_date(rng), rng), rng.choice(LADDER)]
                k = (tuple(p[1]), p[2])
                if k not in seen:
                    seen.add(k)
                    ps.append(p)
            out.append(ps)
    # de-duplicate inside batches
    res = []
    for ps in out:
        seen, qs = set(), []
        for p in ps:
            k = (p[0], tuple(p[1]), p[2])
            if k not in seen:
                seen.add(k)
                qs.append(p)
        res.append(qs)
    return res


def spellings(d):
    """Accepted texts whose start is the date d: (kind, text); kind 'i' can be given to
    periods.instant as well as to periods.period."""
    iy, w, wd = d.isocalendar()
    iso = d.isoformat()
    wk = f"{iy:04d}-W{w:02d}"
    out = [("i", iso), ("i", f"{wk}-{wd}"), ("p", "day:" + iso), ("p", "day:" + iso + ":3"),
           ("p", f"weekday:{wk}-{wd}:2"), ("p", f"day:{wk}-{wd}"), ("p", "weekday:" + iso),
           ("p", f"weekday:{wk}-{wd}"), ("p", "week:" + iso + ":2"), ("p", "month:" + iso), ("p", f"year:{wk}-{wd}:2")]
    if wd == 1:
        out += [("i", wk), ("p", "week:" + wk + ":2"), ("p", "month:" + wk), ("p", "year:" + wk + ":1")]
    if d.day == 1:
        out += [("i", iso[:7]), ("p", "month:" + iso[:7] + ":3"), ("p", "year:" + iso[:7]), ("p", "week:" + iso[:7])]
        if d.month == 1:
            out += [("i", iso[:4]), ("p", "year:" + iso[:4] + ":2")]
    return out


def typed_inputs(rng, s):
    """The day s given as every other accepted argument type."""
    hms = [rng.randrange(24), rng.randrange(60), rng.randrange(60)]
    out = [{"t": "date", "v": list(s)}, {"t": "datetime", "v": list(s) + hms},
           {"t": "datetime_tz", "v": list(s) + hms, "tz": rng.choice([-720, -300, 60, 120, 330, 840])},
           {"t": "pdate", "v": list(s)}, {"t": "pdatetime", "v": list(s) + hms},
           {"t": "pdatetime_tz", "v": list(s) + hms, "tz": rng.choice(["Europe/Paris", "America/New_York", "Asia/Tokyo",
                                                                          "Pacific/Auckland"])},
           {"t": "instant", "v": list(s)}, {"t": "tuple", "v": list(s)}, {"t": "list", "v": list(s)},
           {"t": "period", "v": [rng.choice([0, 2]), list(s), rng.choice([1, 3])]}]
    if s[2] == 1:
        out += [{"t": "tuple", "v": s[:2]}, {"t": "period", "v": [rng.choice([3, 4]), list(s), rng.choice([1, 2, 12])]}]
        if s[1] == 1:
            out += [{"t": "int", "v": s[0]}, {"t": "list", "v": s[:1]}]
    return out


def sequences(rng, n_dates, bd):
    """Operation sequences run in one process: parse texts (every accepted spelling of a
    day, in random order), print what the parser returned, print the instant and periods
    starting that day built afresh, parse the printed texts and print again."""
    out = []
    for k in range(n_dates):
        if k % 3 == 0:
            s = rng.choice(bd)
        else:
            s = rand_date(rng)
        if k % 4 == 1:
            s = align(1, s)            # a Monday: week texts apply
        elif k % 4 == 2:
            s = [s[0], s[1], 1]        # first of month: month / year texts apply
        d = D(s)
        sp = spellings(d) + [("v", v) for v in typed_inputs(rng, list(s))]
        rng.shuffle(sp)
        if k % 2 == 0 and 1 < s[0] < 9999:
            # one of the other argument types is the first thing this process sees of the day
            first = rng.choice([x for x in sp if x[0] == "v"])
            sp.remove(first)
            sp.insert(0, first)
        steps = []
        for kind, text in sp[: rng.choice([1, 2, 4, 8, len(sp)])]:
            if kind == "v":
                as_instant = text["t"] in ("tuple", "list") or rng.random() < 0.6
                steps.append({"op": "ibuildshow" if as_instant else "buildshow", "v": text})
            elif kind == "i" and rng.random() < 0.7:
                steps.append({"op": "iparseshow", "s": text})
            else:
                steps.append({"op": "parseshow", "s": text})
            r = rng.random()
            if r < 0.4:
                steps.append({"op": "iround", "c": list(s)})
            elif r < 0.6:
                steps.append({"op": "ishow", "c": list(s)})
            elif r < 0.8:
                u = rng.choice([0, 2, 1, 3, 4])
                steps.append({"op": "round", "p": [u, align(u, list(s)), rng.choice([1, 1, 2, 12])]})
        # afterwards everything that starts that day prints canonically
        steps.append({"op": "iround", "c": list(s)})
        for u in (0, 2):
            steps.append({"op": "round", "p": [u, list(s), rng.choice([1, 2])]})
        steps.append({"op": "iparseshow", "s": d.isoformat()})
        # neighbours of the day (the day before / after are other instants)
        for delta in (-1, 1):
            try:
                x = d + datetime.timedelta(delta)
            except OverflowError:
                continue
            steps.append({"op": "iround", "c": [x.year, x.month, x.day]})
        out.append({"op": "seq", "steps": steps})
    return out


def generate(rng, tier):
    scale = {"quick": 1, "escalated": 4, "thorough": 25}[tier]
    cases = []
    bd = boundary_dates()

    # (0) stateful sequences first (the process is as fresh as it gets) ------------------------
    cases += sequences(rng, 150 * scale, bd)

    # (a) printing ---------------------------------------------------------------------------
    cases.append({"op": "round", "p": ETERNITY})
    cases.append({"op": "show", "p": [5, [2014, 1, 1], 1]})
    # boundary starts x every unit, sizes from the ladder
    for i in range(900 * scale):
        s = rng.choice(bd)
        u = rng.randrange(5)
        cases.append({"op": "round", "p": [u, align(u, s, rng), rng.choice(LADDER)]})
    for i in range(500 * scale):
        u = rng.randrange(5)
        n = rng.choice(LADDER) if rng.random() < 0.7 else rng.randrange(1, 3000)
        cases.append({"op": "round", "p": [u, align(u, rand_date(rng), rng), n]})
    # week 53 and ISO week 1 starting in December: every Monday 22 Dec .. 7 Jan of many years
    years = list(range(1995, 2035)) if tier == "quick" else list(range(1600, 2400))
    for y in years:
        d = datetime.date(y, 12, 22)
        d -= datetime.timedelta(d.isoweekday() - 1)
        for k in range(3):
            x = d + datetime.timedelta(7 * k)
            cases.append({"op": "round", "p": [1, [x.year, x.month, x.day], rng.choice([1, 1, 2, 53])]})
            x2 = x + datetime.timedelta(rng.randrange(7))
            cases.append({"op": "round", "p": [0, [x2.year, x2.month, x2.day], rng.choice([1, 1, 3])]})
    # leap days
    for y in (1600, 2000, 2016, 2020, 2400, 9996):
        for u in (0, 2):
            for n in (1, 2, 366):
                cases.append({"op": "round", "p": [u, [y, 2, 29], n]})
    # outside the claimed domain (model comparison only): unaligned, non-positive sizes, early years, invalid dates
    for i in range(250 * scale):
        u = rng.randrange(6)
        r = rng.random()
        if r < 0.35:
            p = [u, rand_date(rng), rng.choice([0, -1, -12, -100, 1, 12])]
        elif r < 0.6:
            p = [u, [rng.choice([1, 9, 10, 99, 100, 999, 998]), rng.choice([1, 1, 3, 12]), rng.choice([1, 1, 5, 28])],
                 rng.choice(LADDER)]
        elif r < 0.8:
            p = [u, [rng.choice([0, -1, 2014, 10000, 2015]), rng.choice([0, 1, 2, 12, 13]),
                     rng.choice([0, 1, 29, 30, 31, 32])], rng.choice([1, 2, 12])]
        else:
            p = [u, rand_date(rng), rng.choice(LADDER)]
        cases.append({"op": "round" if rng.random() < 0.7 else "show", "p": p})
    # unaligned week / weekday starts around 1 January, where calendar year and ISO year differ
    for y in BOUNDARY_Y[1:-1]:
        for m, d in ((1, 1), (1, 2), (1, 3), (12, 29), (12, 30), (12, 31)):
            for u, n in ((1, 1), (1, 2), (1, 11), (0, 2)):
                cases.append({"op": "round", "p": [u, [y, m, d], n]})
    # instants
    for i in range(250 * scale):
        c = rng.choice(bd) if i % 2 else rand_date(rng, lo=1)
        cases.append({"op": "iround", "c": c})
    for c in ([1, 1, 1], [9, 9, 9], [99, 12, 31], [999, 12, 31], [9999, 12, 31], [0, 1, 1], [10000, 1, 1], [2015, 2, 29],
              [2014, 13, 1], [2014, 0, 1], [2014, 4, 31], [-1, -1, -1], [2014, 1, 0]):
        cases.append({"op": "iround", "c": c})
        cases.append({"op": "ishow", "c": c})
    # collision search and storage file names
    batches = near_batches(rng)
    for ps in batches:
        cases.append({"op": "many", "ps": ps})
    for ps in batches[:: (4 if tier == "quick" else 1)]:
        cases.append({"op": "disk", "ps": ps[:25]})
    cases.append({"op": "disk", "ps": [ETERNITY]})

    # (b) strings ----------------------------------------------------------------------------
    strings = []
    for s in rejection_strings(rng):
        strings.append((s, "class"))
    for i in range(900 * scale):
        strings.append((grammar_string(rng), "grammar"))
    # every single-character edit of valid texts
    seeds = list(EDIT_SEEDS)
    if tier != "quick":
        for i in range(12 * scale):
            u = rng.randrange(5)
            seeds.append(str(mk_period([u, align(u, rand_date(rng), rng), rng.choice(LADDER[:20])])))
    for s in seeds:
        strings.append((s, "valid"))
        edits = single_edits(s, EDIT_ALPHABET)
        if tier == "quick":
            edits = rng.sample(edits, (len(edits) * 45) // 100)
        for e in edits:
            strings.append((e, "edit"))
    # random short strings over the grammar alphabet; exhaustive up to length 4 in the thorough tier
    alpha = "0123456789-:W"
    if tier == "thorough":
        import itertools
        for L in range(0, 5):
            for t in itertools.product(alpha, repeat=L):
                strings.append(("".join(t), "short"))
    for i in range(300 * scale):
        L = rng.randrange(0, 12)
        strings.append(("".join(rng.choice(alpha + "01-") for _ in range(L)), "short"))
    seen = set()
    for s, src in strings:
        if s in seen:
            continue
        seen.add(s)
        cases.append({"op": "parse", "s": s, "src": src})
        if src in ("class", "short") or rng.random() < 0.15:
            if ":" not in s or rng.random() < 0.2:
                cases.append({"op": "iparse", "s": s})
    return cases


def neighbours(c, rng):
    """Cases around a mismatching one."""
    out = []
    if c["op"] in ("parse", "iparse"):
        for e in rng.sample(single_edits(c["s"], EDIT_ALPHABET), min(60, len(c["s"]) * 30 + 10)):
            out.append({"op": c["op"], "s": e, "src": "neighbour"})
        return out
    if "p" in c:
        for _ in range(40):
            u, s, n = c["p"]
            try:
                d = D(s) + datetime.timedelta(rng.randrange(-8, 9))
            except (ValueError, OverflowError):
                break
            out.append({"op": "round", "p": [u, align(u, [d.year, d.month, d.day]), max(1, n + rng.randrange(-1, 2))]})
    return out


def shrink(c, still_fails):
    """Drop characters of a failing string / periods of a failing batch while it keeps failing.
    Sequences are kept whole: re-running parts of one in this process would see its state."""
    if c["op"] == "seq":
        return None
    if c["op"] in ("parse", "iparse"):
        s = c["s"]
        changed = True
        while changed:
            changed = False
            for i in range(len(s)):
                t = s[:i] + s[i + 1:]
                if still_fails({"op": c["op"], "s": t, "src": "shrunk"}):
                    s, changed = t, True
                    break
        return {"op": c["op"], "s": s, "src": "shrunk"}
    if c["op"] in ("many", "disk"):
        ps = list(c["ps"])
        i = 0
        while i < len(ps) and len(ps) > 1:
            t = ps[:i] + ps[i + 1:]
            if still_fails({"op": c["op"], "ps": t}):
                ps = t
            else:
                i += 1
        return {"op": c["op"], "ps": ps}
    return None
