"""Shared machinery of the checks: Coq build, proof-obligation accounting,
correspondence runs (cases_*.v evaluated with vm_compute), verdict, evidence.

Runs under /venv/bin/python with PYTHONPATH=/repo:/verif/harness, PYTHONHASHSEED=0.
"""
from __future__ import annotations

import collections
import concurrent.futures
import fcntl
import fractions
import hashlib
import json
import os
import pathlib
import re
import shutil
import subprocess
import sys
import time

VERIF = pathlib.Path(__file__).resolve().parent.parent
COQ = VERIF / "coq"
BUILD = VERIF / "build"          # scratch (git-ignored)
REPO = pathlib.Path(os.environ.get("VERIF_REPO", "/repo"))

# Axioms of the Coq standard library that a theorem may depend on (named in the
# trusted base when they occur).  Nothing else is accepted.
AXIOM_WHITELIST = {
    "functional_extensionality_dep",
    "FunctionalExtensionality.functional_extensionality_dep",
    "propositional_extensionality",
    "proof_irrelevance",
    "classic",
    "Classical_Prop.classic",
    "Eqdep.Eq_rect_eq.eq_rect_eq",
    "eq_rect_eq",
    "JMeq_eq",
    "JMeq.JMeq_eq",
    "ClassicalDedekindReals.sig_forall_dec",
    "ClassicalDedekindReals.sig_not_dec",
}

FORBIDDEN = re.compile(
    r"\b(Admitted|admit|Axiom|Axioms|Parameter|Parameters|Conjecture|Conjectures|"
    r"Admit Obligations|Unset Guard Checking|Unset Positivity Checking|"
    r"Unset Universe Checking|bypass_check|type-in-type|impredicative-set|native_compute)\b"
)


# ----------------------------------------------------------------------------
# Error kinds (must mirror coq/model/Base.v: err)
# ----------------------------------------------------------------------------

def errkind(e: BaseException) -> str:
    names = {c.__name__ for c in type(e).__mro__}
    if "SituationParsingError" in names:
        return "ESituation"
    if "CycleError" in names:
        return "ECycle"
    if "SpiralError" in names:
        return "ESpiral"
    if "PeriodMismatchError" in names:
        return "EMismatch"
    if names & {"VariableNotFoundError", "ParameterNotFoundError", "KeyError"}:
        return "ENotFound"
    if names & {"PeriodError", "InstantError", "ParserError"}:
        return "EPeriod"
    if "ValueError" in names:
        return "EValue"
    if "TypeError" in names:
        return "EType"
    if "IndexError" in names:
        return "EIndex"
    return "EOther"


class Err:
    """Python-side image of an [OErr kind] observation."""

    def __init__(self, kind, msg=""):
        self.kind = kind
        self.msg = msg

    def __eq__(self, other):
        return isinstance(other, Err) and other.kind == self.kind

    def __hash__(self):
        return hash(("Err", self.kind))

    def __repr__(self):
        return f"Err({self.kind})"


def guarded(fn, *a, **k):
    """Run fn; map any exception to an Err observation."""
    try:
        return fn(*a, **k)
    except Exception as e:  # noqa: BLE001 - canonicalisation of every failure is the point
        return Err(errkind(e), f"{type(e).__name__}: {e}"[:300])


# ----------------------------------------------------------------------------
# Python value -> Coq text
# ----------------------------------------------------------------------------

def cz(n) -> str:
    n = int(n)
    return f"({n})" if n < 0 else str(n)


def cstr(s: str) -> str:
    out = []
    for ch in s:
        o = ord(ch)
        if ch == '"':
            out.append('""')
        elif 32 <= o < 127:
            out.append(ch)
        else:
            raise ValueError(f"non-printable character in Coq string literal: {s!r}")
    return '"' + "".join(out) + '"'


def cbool(b) -> str:
    return "true" if b else "false"


def clist(items) -> str:
    return "[" + "; ".join(items) + "]"


def copt(x, f) -> str:
    return "None" if x is None else f"(Some {f(x)})"


def cq(x) -> str:
    fr = fractions.Fraction(x)
    return f"({cz(fr.numerator)} # {fr.denominator})"


def cobs(x) -> str:
    """Generic observation -> Coq term of type Obs.obs."""
    if isinstance(x, Err):
        return f"(OErr {x.kind})"
    if x is None:
        return "ONone"
    if isinstance(x, bool):
        return f"(OB {cbool(x)})"
    if isinstance(x, int):
        return f"(OZ {cz(x)})"
    if isinstance(x, fractions.Fraction):
        return f"(OQ {cq(x)})"
    if isinstance(x, str):
        return f"(OS {cstr(x)})"
    if isinstance(x, (list, tuple)):
        return "(OL " + clist([cobs(i) for i in x]) + ")"
    try:
        import numpy
        if isinstance(x, numpy.bool_):
            return f"(OB {cbool(bool(x))})"
        if isinstance(x, numpy.integer):
            return f"(OZ {cz(int(x))})"
    except ImportError:
        pass
    raise TypeError(f"cannot render observation {x!r} of type {type(x)}")


def jsonable(x):
    if isinstance(x, Err):
        return {"error": x.kind, "msg": x.msg}
    if isinstance(x, fractions.Fraction):
        return {"q": [x.numerator, x.denominator]}
    if isinstance(x, (list, tuple)):
        return [jsonable(i) for i in x]
    if isinstance(x, dict):
        return {str(k): jsonable(v) for k, v in x.items()}
    if isinstance(x, (str, int, float, bool)) or x is None:
        return x
    try:
        import numpy
        if isinstance(x, numpy.generic):
            return x.item()
        if isinstance(x, numpy.ndarray):
            return x.tolist()
    except ImportError:
        pass
    return repr(x)


# ----------------------------------------------------------------------------
# Coq build
# ----------------------------------------------------------------------------

class BuildResult:
    def __init__(self):
        self.ok = False
        self.log = ""
        self.theorems = []          # names in props/Cxx.v
        self.assumptions = []       # per theorem: "closed" or list of axiom names
        self.bad_axioms = []
        self.forbidden = []         # forbidden words found in sources
        self.failed_at = None       # (file, line, enclosing item)
        self.tables = "unchanged"
        self.seconds = 0.0
        self.corr_ok = False
        self.corr_log = ""


def _sources():
    files = []
    for sub in ("gen", "model", "proofs", "props", "corr"):
        files += sorted((COQ / sub).glob("*.v"))
    return files


def write_coqproject():
    lines = ["-Q . Verif", "-arg -w", "-arg -notation-overridden,-deprecated-hint-without-locality,-abstract-large-number"]
    lines += [str(f.relative_to(COQ)) for f in _sources()]
    text = "\n".join(lines) + "\n"
    p = COQ / "_CoqProject"
    if not p.exists() or p.read_text() != text:
        p.write_text(text)
        return True
    return False


def scan_forbidden():
    hits = []
    for f in _sources():
        if f.parent.name == "gen":
            continue
        text = f.read_text()
        # strip comments (non-nested approximation is enough: we never nest)
        stripped = re.sub(r"\(\*.*?\*\)", lambda m: " " * len(m.group(0)), text, flags=re.S)
        for m in FORBIDDEN.finditer(stripped):
            line = stripped.count("\n", 0, m.start()) + 1
            hits.append(f"{f.relative_to(COQ)}:{line}: {m.group(0)}")
    return hits


def _enclosing_item(path: pathlib.Path, line: int):
    try:
        lines = path.read_text().splitlines()
    except OSError:
        return None
    for i in range(min(line, len(lines)) - 1, -1, -1):
        m = re.match(r"\s*(?:Local |Global |#\[.*?\] *)?(Lemma|Theorem|Corollary|Definition|Fixpoint|Example|Fact|Remark|Instance|Function)\s+([\w']+)", lines[i])
        if m:
            return m.group(2)
    return None


def build(prop: str | None, timeout=1500, target_all=False) -> BuildResult:
    """Regenerate tables, (re)build what props/<prop>.v depends on, always re-check
    props/<prop>.v itself and read its Print Assumptions output."""
    import gen_tables

    r = BuildResult()
    t0 = time.time()
    BUILD.mkdir(exist_ok=True)
    lock = open(BUILD / ".coq.lock", "w")
    fcntl.flock(lock, fcntl.LOCK_EX)
    try:
        try:
            changed = gen_tables.main(COQ / "gen" / "Tables.v")
            r.tables = "rewritten" if changed else "unchanged"
        except gen_tables.TranslationError as e:
            r.log = f"gen_tables: TRANSLATION FAILED: {e}"
            r.failed_at = ("harness/gen_tables.py", 0, str(e))
            return r
        r.forbidden = scan_forbidden()
        regen = write_coqproject() or not (COQ / "Makefile").exists()
        if regen:
            subprocess.run(["coq_makefile", "-f", "_CoqProject", "-o", "Makefile"], cwd=COQ,
                           check=True, capture_output=True, timeout=120)
        if target_all:
            targets = []
        else:
            pf = COQ / "props" / f"{prop}.v"
            r.theorems = re.findall(r"^\s*Theorem\s+([\w']+)", pf.read_text(), flags=re.M)
            for ext in (".vo", ".glob", ".vok", ".vos"):
                q = pf.with_suffix(ext)
                if q.exists():
                    q.unlink()
            targets = [f"props/{prop}.vo"]
        jobs = os.environ.get("VERIF_JOBS", "8")
        proc = subprocess.run(["timeout", str(timeout), "make", f"-j{jobs}", "-k"] + targets, cwd=COQ,
                              capture_output=True, text=True)
        r.log = proc.stdout + proc.stderr
        r.ok = proc.returncode == 0
        if not target_all and (COQ / "corr" / f"Corr_{prop}.v").exists():
            # the model side of the correspondence is built separately: it must keep
            # running when a proof is broken
            proc2 = subprocess.run(["timeout", str(timeout), "make", f"-j{jobs}", f"corr/Corr_{prop}.vo"],
                                   cwd=COQ, capture_output=True, text=True)
            r.corr_ok = proc2.returncode == 0
            r.corr_log = proc2.stdout + proc2.stderr
        if not r.ok:
            m = re.search(r'File "\./?([^"]+)", line (\d+)', r.log)
            if m:
                f, ln = m.group(1), int(m.group(2))
                r.failed_at = (f, ln, _enclosing_item(COQ / f, ln))
            else:
                r.failed_at = ("make", proc.returncode, r.log[-300:])
        # Print Assumptions blocks, in order
        blocks = []
        lines = proc.stdout.splitlines()
        i = 0
        while i < len(lines):
            ln = lines[i]
            if ln.startswith("Closed under the global context"):
                blocks.append("closed")
            elif ln.startswith("Axioms:"):
                axs = []
                i += 1
                while i < len(lines) and (lines[i].startswith(" ") or re.match(r"^[\w.']+\s*:", lines[i])):
                    m = re.match(r"^([\w.']+)\s*:", lines[i])
                    if m:
                        axs.append(m.group(1))
                    i += 1
                blocks.append(axs)
                continue
            i += 1
        r.assumptions = blocks
        for b in blocks:
            if b != "closed":
                for a in b:
                    if a not in AXIOM_WHITELIST and a.split(".")[-1] not in AXIOM_WHITELIST:
                        r.bad_axioms.append(a)
        return r
    finally:
        r.seconds = time.time() - t0
        fcntl.flock(lock, fcntl.LOCK_UN)
        lock.close()


# ----------------------------------------------------------------------------
# Correspondence: cases_*.v evaluated with vm_compute
# ----------------------------------------------------------------------------

COQC_ARGS = ["-Q", str(COQ), "Verif", "-w", "-notation-overridden,-abstract-large-number,-deprecated-hint-without-locality"]


def _run_shard(args):
    path, timeout = args
    try:
        proc = subprocess.run(["timeout", str(timeout), "coqc"] + COQC_ARGS + [str(path)],
                              capture_output=True, text=True, cwd=path.parent)
    except Exception as e:  # noqa: BLE001
        return path, None, f"coqc failed to start: {e}"
    if proc.returncode != 0:
        return path, None, (proc.stdout + proc.stderr)[-2000:]
    flat = " ".join(proc.stdout.split()).replace("%nat", "")
    m = re.search(r"=\s*\[([0-9;\s]*)\](?:%\w+)?\s*:\s*list nat", flat)
    if not m:
        return path, None, "unparsable coqc output: " + flat[-500:]
    idx = [int(x) for x in m.group(1).replace(" ", "").split(";") if x]
    return path, idx, ""


def run_correspondence(prop, header, run_fn, coq_cases, shard=400, timeout=900, jobs=None):
    """coq_cases: list of strings "(case_term, obs_term)".  Returns (mismatch indices,
    list of shard errors)."""
    d = BUILD / "cases" / f"{prop}_{os.getpid()}"     # per process: concurrent runs must not share shards
    if d.exists():
        shutil.rmtree(d)
    d.mkdir(parents=True)
    shards = []
    for k in range(0, len(coq_cases), shard):
        chunk = coq_cases[k:k + shard]
        path = d / f"cases_{prop}_{k // shard:04d}.v"
        with open(path, "w") as f:
            f.write("From Coq Require Import ZArith QArith List String.\n")
            f.write("From Verif Require Import Base Obs.\n")
            f.write(header + "\n")
            f.write("Import ListNotations.\nOpen Scope string_scope.\nOpen Scope Z_scope.\n")
            f.write("Definition cases := [\n  " + ";\n  ".join(chunk) + "\n].\n")
            f.write(f"Eval vm_compute in (mismatches {run_fn} cases).\n")
        shards.append((k, path))
    mism, errors = [], []
    jobs = jobs or int(os.environ.get("VERIF_JOBS", "8"))
    with concurrent.futures.ThreadPoolExecutor(max_workers=jobs) as ex:
        for (k, path), (_, idx, err) in zip(shards, ex.map(_run_shard, [(p, timeout) for _, p in shards])):
            if idx is None:
                errors.append(f"{path.name}: {err}")
            else:
                mism += [k + i for i in idx]
    if not errors and not os.environ.get("VERIF_KEEP_CASES"):
        shutil.rmtree(d, ignore_errors=True)
    return mism, errors


def model_observation(prop, header, run_fn, coq_case_term, timeout=300):
    """Evaluate the model on one case; returns Coq's printed term (raw text)."""
    d = BUILD / "cases" / f"{prop}_explain_{os.getpid()}"
    d.mkdir(parents=True, exist_ok=True)
    path = d / f"explain_{prop}_{os.getpid()}.v"
    with open(path, "w") as f:
        f.write("From Coq Require Import ZArith QArith List String.\n")
        f.write("From Verif Require Import Base Obs.\n")
        f.write(header + "\n")
        f.write("Import ListNotations.\nOpen Scope string_scope.\nOpen Scope Z_scope.\n")
        f.write(f"Eval vm_compute in ({run_fn} {coq_case_term}).\n")
    proc = subprocess.run(["timeout", str(timeout), "coqc"] + COQC_ARGS + [str(path)],
                          capture_output=True, text=True, cwd=d)
    out = " ".join((proc.stdout + proc.stderr).split())
    for ext in (".v", ".vo", ".glob", ".vok", ".vos"):
        q = path.with_suffix(ext)
        if q.exists():
            q.unlink()
    q = d / ("." + path.stem + ".aux")
    if q.exists():
        q.unlink()
    return out[:4000]


# ----------------------------------------------------------------------------
# Source fingerprints (escalation only)
# ----------------------------------------------------------------------------

def fingerprint(anchors):
    """anchors: list of repo-relative files.  Returns {file: sha256 of normalised AST}."""
    import ast
    out = {}
    for rel in anchors:
        p = REPO / rel
        try:
            tree = ast.parse(p.read_text())
            for node in ast.walk(tree):  # drop docstrings
                if isinstance(node, (ast.FunctionDef, ast.ClassDef, ast.Module, ast.AsyncFunctionDef)):
                    b = node.body
                    if b and isinstance(b[0], ast.Expr) and isinstance(b[0].value, ast.Constant) \
                            and isinstance(b[0].value.value, str):
                        node.body = b[1:] or [ast.Pass()]
            out[rel] = hashlib.sha256(ast.dump(tree).encode()).hexdigest()[:16]
        except (OSError, SyntaxError) as e:
            out[rel] = f"unreadable: {e}"
    return out


def known_findings():
    p = VERIF / "known_findings.json"
    if not p.exists():
        return {"open": [], "fixed": []}
    return json.loads(p.read_text())
