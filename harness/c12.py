"""C12 - a described situation becomes exactly that simulation.

Cases are lists of situation documents (JSON) for one of two custom tax-benefit systems
(person + household [parents max 2, children]; the second adds a club kind with sub-roles).
The implementation driver builds each document with the real SimulationBuilder.build_from_dict
and records ids, memberships, roles, positions and every holder's known periods and arrays.
The oracle re-reads the document naively (its own walk of the JSON, the real periods.period for
the keys) and checks the property's clauses on the implementation's answer, independently of
the Coq model.
"""
from __future__ import annotations

import copy
import datetime
import fractions
import re

import numpy

from openfisca_core import periods
from openfisca_core.entities import build_entity
from openfisca_core.holders import set_input_dispatch_by_period, set_input_divide_by_period
from openfisca_core.indexed_enums import Enum
from openfisca_core.parameters import ParameterNode
from openfisca_core.periods import DateUnit
from openfisca_core.reforms import Reform
from openfisca_core.simulations import SimulationBuilder
from openfisca_core.taxbenefitsystems import TaxBenefitSystem
from openfisca_core.variables import Variable

from common import Err, cbool, clist, copt, cq, cstr, cz

PROP = "C12"
COQ_RUN = "Corr_C12.run"
SHARD = 60
ANCHORS = ["openfisca_core/simulations/simulation_builder.py",
           "openfisca_core/simulations/_build_from_variables.py",
           "openfisca_core/simulations/_build_default_simulation.py",
           "openfisca_core/simulations/helpers.py",
           "openfisca_core/simulations/_type_guards.py",
           "openfisca_core/variables/variable.py",
           "openfisca_core/holders/holder.py",
           "openfisca_core/holders/helpers.py"]
RULE = ("situation documents for two custom systems (person + household with parents max 2 / children; "
        "second system adds clubs with sub-roles): fully specified, single-entity short form and "
        "variables-only shapes, 1-5 persons, 0-3 groups per kind with persons left out, person and group "
        "ids overlapping, every value type x definition period (month, year, day, week, weekday, eternity; weeks at "
        "ISO-year boundaries), an enumeration of 150 members (values, defaults and axis values at indices >= 128), "
        "divide / dispatch set-input rules with nested longer periods, several spellings of every period "
        "key; 'spelling' cases build the same abstract document under two random spellings; 'axes' cases "
        "(parallel, perpendicular, spelled axis periods) come with the expanded copies they stand for; "
        "a mutation stream turns valid documents into each ill-formed class of the property text; a case "
        "is non-trivial when at least one document builds and stores a declared value, or is a mutant")
TRUSTED = ["harness tokeniser of period-key / date texts (regular expressions -> KPlain/KPref/KEternity tokens); "
           "the model parses, validates and canonicalises the tokens",
           "numexpr is modelled by a table: decimal literals evaluate to their value, other texts do not evaluate",
           "Python's set iteration order of the person ids is taken from the interpreter (list(set(ids))) and "
           "given to the model as a permutation; the theorems hold for every permutation",
           "numpy conversions (astype, datetime64 parsing, linspace, meshgrid, tile) are modelled, covered by the "
           "correspondence only"]
ASSUMPTIONS = ["period keys are ISO-format dates (no ISO-week texts), sizes >= 1, years 1000..9999",
               "amounts given to divide-rule variables are multiples of 166320 (6 * lcm(1..12)) so that every share, also of a year around a shared quarter, is exact",
               "floats are multiples of 1/4 below 2^24; ints stay within int32 (int16 for enum indices)",
               "texts given to numeric variables are decimal literals or alphabetic words (numexpr expressions are not generated)",
               "the SCALE stream (33000-40000 persons, group kinds left undeclared) is checked by the oracle on the "
               "implementation only; the model side of those cases is the empty case (the theorems are size-independent)",
               "values are scalars in the entity shapes and scalars or homogeneous arrays in the variables-only shape",
               "long periods declared for one variable are nested and never fully covered by shorter declared ones "
               "(no 'inconsistent input' documents)",
               "variables-only documents refuse ill-formed input with other errors than the situation error "
               "(OPEN known finding variables-only-ill-formed-non-situation-error)"]

UNITS = [DateUnit.WEEKDAY, DateUnit.WEEK, DateUnit.DAY, DateUnit.MONTH, DateUnit.YEAR, DateUnit.ETERNITY]
UNAME = ["weekday", "week", "day", "month", "year", "eternity"]
UCOQ = ["Weekday", "Week", "Day", "Month", "Year", "Eternity"]
UCODE = {u: i for i, u in enumerate(UNITS)}
EPOCH = datetime.date(1970, 1, 1).toordinal()
BASE = 166320        # 6 * lcm(1..12): a quarter's share is still divisible by any number of months


# ---- the systems ------------------------------------------------------------------------

class Color(Enum):
    red = "r"
    green = "g"
    blue = "b"


ENUM_NAMES = ["red", "green", "blue"]
BIG_NAMES = [f"d{i:03d}" for i in range(150)]       # more members than one signed byte can index
District = Enum("District", [(n_, n_) for n_ in BIG_NAMES])
ENUMS = {"color": (Color, ENUM_NAMES, "green"), "big": (District, BIG_NAMES, "d140")}
PYTYPE = {"int": int, "float": float, "bool": bool, "enum": Enum, "date": datetime.date, "str": str}
TCOQ = {"int": "TInt", "float": "TFloat", "bool": "TBool", "enum": "TEnum", "date": "TDate", "str": "TStr"}
RULES = {"none": None, "divide": set_input_divide_by_period, "dispatch": set_input_dispatch_by_period}
RCOQ = {"none": "RNone", "divide": "RDivide", "dispatch": "RDispatch"}


def V(name, ent, typ, unit, rule="none", end=None, default=None, enum="color"):
    return dict(name=name, ent=ent, type=typ, unit=unit, rule=rule, end=end, default=default, enum=enum)


def enum_names(v):
    return ENUMS[v["enum"]][1]


VARS_A = [
    V("p_int_m", "person", "int", "month"),
    V("p_sal", "person", "float", "month", "divide"),
    V("p_idiv", "person", "int", "month", "divide"),
    V("p_bool_m", "person", "bool", "month", "dispatch"),
    V("p_int_y", "person", "int", "year", default=7),
    V("p_flt_y", "person", "float", "year", default=1.5),
    V("p_amt_y", "person", "float", "year", "divide"),
    V("p_enum_e", "person", "enum", "eternity"),
    V("p_enum_m", "person", "enum", "month", "dispatch"),
    V("p_date_e", "person", "date", "eternity"),
    V("p_date_y", "person", "date", "year", default=[2000, 1, 1]),
    V("p_str_y", "person", "str", "year", default="none"),
    V("p_str_m", "person", "str", "month", "dispatch"),
    V("p_int_d", "person", "int", "day", "dispatch"),
    V("p_int_w", "person", "int", "week"),
    V("p_end_m", "person", "int", "month", end=[2018, 6, 1]),      # ends on the first day of a month
    V("p_end_d", "person", "float", "day", end=[2018, 12, 31]),
    V("p_end_y", "person", "int", "year", "divide", end=[2019, 1, 1]),
    V("p_int_e", "person", "int", "eternity"),
    V("p_big_e", "person", "enum", "eternity", enum="big"),
    V("p_big_m", "person", "enum", "month", enum="big", default="d128"),
    V("p_int_wd", "person", "int", "weekday"),
    V("h_rent", "household", "int", "month"),
    V("h_size", "household", "float", "year", "divide"),
    V("h_flag", "household", "bool", "month", default=True),
    V("h_kind", "household", "enum", "eternity"),
    V("h_since", "household", "date", "eternity"),
    V("h_name", "household", "str", "year"),
    V("h_end_m", "household", "int", "month", end=[2018, 12, 15]),
    V("h_end_d", "household", "bool", "day", "dispatch", end=[2019, 2, 28]),
    V("h_big_y", "household", "enum", "year", enum="big", default="d129"),
]
VARS_B = VARS_A + [
    V("c_fee", "club", "int", "year"),
    V("c_tag", "club", "str", "eternity"),
    V("c_dues", "club", "float", "month", "divide"),
]

HOUSEHOLD_ROLES = [dict(key="parent", plural="parents", max=2), dict(key="child", plural="children")]
CLUB_ROLES = [dict(key="officer", plural="officers", subroles=["president", "treasurer"]),
              dict(key="member")]


def type_default(v):
    d = v["default"]
    t = v["type"]
    if t == "int":
        return 0 if d is None else d
    if t == "float":
        return 0.0 if d is None else d
    if t == "bool":
        return False if d is None else d
    if t == "enum":
        return enum_names(v).index(d if d is not None else ENUMS[v["enum"]][2])
    if t == "date":
        return 0 if d is None else datetime.date(*d).toordinal() - EPOCH
    return "" if d is None else d


class System:
    def __init__(self, name, groups, vars_):
        self.name = name
        self.person = build_entity(key="person", plural="persons", label="", is_person=True)
        self.group_desc = groups            # list of (key, plural, roles)
        self.groups = [build_entity(key=k, plural=p, label="", roles=copy.deepcopy(r)) for k, p, r in groups]
        self.entities = [self.person] + self.groups
        self.tbs = TaxBenefitSystem(self.entities)
        self.tbs.parameters = ParameterNode("", data={})      # so that the system can be cloned
        self.vars = vars_
        self.var = {v["name"]: v for v in vars_}
        ent_by_key = {e.key: e for e in self.entities}
        for v in vars_:
            attrs = dict(value_type=PYTYPE[v["type"]], entity=ent_by_key[v["ent"]],
                         definition_period=UNITS[UNAME.index(v["unit"])])
            if RULES[v["rule"]] is not None:
                attrs["set_input"] = RULES[v["rule"]]
            if v["end"]:
                attrs["end"] = "%04d-%02d-%02d" % tuple(v["end"])
            if v["type"] == "enum":
                cls_, names_, dflt_ = ENUMS[v["enum"]]
                attrs["possible_values"] = cls_
                attrs["default_value"] = cls_[v["default"] if v["default"] is not None else dflt_]
            elif v["default"] is not None:
                attrs["default_value"] = datetime.date(*v["default"]) if v["type"] == "date" else v["default"]
            self.tbs.add_variable(type(v["name"], (Variable,), attrs))

    def roles(self, gkey):
        for k, _, r in self.group_desc:
            if k == gkey:
                return r
        raise KeyError(gkey)

    def plural(self, key):
        return {e.key: e.plural for e in self.entities}[key]

    def flattened(self, gkey):
        out = []
        for r in self.roles(gkey):
            out += r.get("subroles") or [r["key"]]
        return out

    def coq(self):
        def crole(r):
            sub = r.get("subroles") or []
            mx = len(sub) if sub else r.get("max")
            return (f"(mkRole {cstr(r['key'])} {copt(r.get('plural'), cstr)} {copt(mx, cz)} "
                    f"{clist([cstr(s) for s in sub])})")

        def cdefault(v):
            d = type_default(v)
            t = v["type"]
            if t in ("int", "enum", "date"):
                return f"(CInt {cz(d)})"
            if t == "float":
                return f"(CFloat {cq(fractions.Fraction(d))})"
            if t == "bool":
                return f"(CBool {cbool(d)})"
            return f"(CStr {cstr(d)})"

        def cvar(v):
            end = "None" if not v["end"] else "(Some (%s, %s, %s))" % tuple(cz(x) for x in v["end"])
            enum = clist([cstr(n) for n in enum_names(v)]) if v["type"] == "enum" else "[]"
            return (f"(mkVariable {cstr(v['name'])} {cstr(v['ent'])} {TCOQ[v['type']]} "
                    f"{UCOQ[UNAME.index(v['unit'])]} {RCOQ[v['rule']]} {end} {cdefault(v)} {enum})")

        ents = [f"(mkEntity {cstr(k)} {cstr(p)} {clist([crole(r) for r in rs])})" for k, p, rs in self.group_desc]
        return ("(mkSys (mkEntity \"person\" \"persons\" []) " + clist(ents) + "\n  "
                + clist([cvar(v) for v in self.vars]) + ")")


SYSTEMS = {
    "A": System("A", [("household", "households", HOUSEHOLD_ROLES)], VARS_A),
    "B": System("B", [("household", "households", HOUSEHOLD_ROLES), ("club", "clubs", CLUB_ROLES)], VARS_B),
}

COQ_HEADER = ("From Verif Require Import Cal Period Builder Corr_C12.\n"
              "Import ListNotations.\nOpen Scope string_scope.\nOpen Scope Z_scope.\n"
              + "\n".join(f"Definition sys{n} : sys := {s.coq()}." for n, s in SYSTEMS.items()))


# ---- tokeniser (trusted) and rendering to Coq ------------------------------------------------

RE_Y = re.compile(r"^([0-9]{4})$")
RE_YM = re.compile(r"^([0-9]{4})-([0-9]{2})$")
RE_YMD = re.compile(r"^([0-9]{4})-([0-9]{2})-([0-9]{2})$")
RE_SIZE = re.compile(r"^[+-]?[0-9]+$")
RE_NUM = re.compile(r"^-?(0|[1-9][0-9]*)(\.[0-9]+)?$")


def tok_start(t):
    m = RE_Y.match(t)
    if m:
        return f"(SY {int(m.group(1))})"
    m = RE_YM.match(t)
    if m:
        return f"(SYM {int(m.group(1))} {int(m.group(2))})"
    m = RE_YMD.match(t)
    if m:
        return f"(SYMD {int(m.group(1))} {int(m.group(2))} {int(m.group(3))})"
    return None


def tokenise(text):
    """Coq term of type pkey, or None for KGarbage."""
    if text.lower() == "eternity":
        return f"(KEternity {cstr(text)})"
    st = tok_start(text)
    if st:
        return f"(KPlain {st})"
    parts = text.split(":")
    if len(parts) in (2, 3) and parts[0] in UNAME:
        st = tok_start(parts[1])
        if st and (len(parts) == 2 or RE_SIZE.match(parts[2])):
            size = None if len(parts) == 2 else int(parts[2])
            return f"(KPref {UCOQ[UNAME.index(parts[0])]} {st} {copt(size, cz)})"
    return None


def all_strings(j, acc):
    if isinstance(j, str):
        acc.add(j)
    elif isinstance(j, list):
        for x in j:
            all_strings(x, acc)
    elif isinstance(j, dict):
        for k, x in j.items():
            acc.add(k)
            all_strings(x, acc)
    return acc


def printable(s):
    return all(32 <= ord(ch) < 127 for ch in s)


def cjson(j):
    if j is None:
        return "JNull"
    if isinstance(j, bool):
        return f"(JBool {cbool(j)})"
    if isinstance(j, int):
        return f"(JInt {cz(j)})"
    if isinstance(j, float):
        return f"(JFloat {cq(fractions.Fraction(j))})"
    if isinstance(j, str):
        return f"(JStr {cstr(j)})"
    if isinstance(j, list):
        return "(JArr " + clist([cjson(x) for x in j]) + ")"
    if isinstance(j, dict):
        return "(JObj " + clist([f"({cstr(k)}, {cjson(x)})" for k, x in j.items()]) + ")"
    raise TypeError(f"not JSON: {j!r}")


def set_order(doc):
    """list(set(person ids)): the interpreter's iteration order of the set the builder makes."""
    persons = doc.get("persons") if isinstance(doc, dict) else None
    if isinstance(persons, dict):
        return list(set(map(str, persons.keys())))
    if isinstance(doc, dict) and "person" in doc:
        return ["person"]
    return []


def coq_case(c):
    strings = set()
    for d in c["docs"]:
        all_strings(d, strings)
    toks, evals = [], []
    for s in sorted(strings):
        t = tokenise(s)
        if t:
            toks.append(f"({cstr(s)}, {t})")
        if RE_NUM.match(s):
            evals.append(f"({cstr(s)}, {cq(fractions.Fraction(s))})")
    order = []
    for d in c["docs"]:
        for p in set_order(d):
            if p not in order:
                order.append(p)
    # all documents of a case have the same persons, hence the same set order
    return (f"(CBuild sys{c['sys']} {clist(toks)} {clist(evals)} {clist([cstr(p) for p in order])} "
            + clist([cjson(d) for d in c["docs"]]) + ")")


# ---- implementation driver -----------------------------------------------------------------

def enc_period(p):
    return [UCODE[p.unit], p.start.year, p.start.month, p.start.day, p.size]


def enc_value(x):
    if isinstance(x, (bool, numpy.bool_)):
        return bool(x)
    if isinstance(x, (int, numpy.integer)):
        return int(x)
    if isinstance(x, (float, numpy.floating)):
        return fractions.Fraction(float(x))
    if isinstance(x, str):
        return str(x)
    raise TypeError(f"cannot observe {x!r}")


def enc_array(a, v):
    t = v["type"]
    if t in ("int", "enum"):
        return [int(x) for x in numpy.asarray(a)]
    if t == "float":
        return [fractions.Fraction(float(x)) for x in a]
    if t == "bool":
        return [bool(x) for x in a]
    if t == "date":
        return [int(x) for x in a.astype("datetime64[D]").astype("int64")]
    return [enc_value(x) for x in a]


def observe(S, sim):
    out = []
    for ent in S.entities:
        pop = sim.populations[ent.key]     # by key: a cloned / reformed system has its own entity objects
        ids = [str(i) for i in pop.ids]
        if ent.is_person:
            mem, roles, pos = [], [], []
        else:
            mem = [int(x) for x in pop.members_entity_id]
            roles = [r.key for r in numpy.atleast_1d(pop.members_role)]
            pos = [int(x) for x in pop.members_position]
        holders = []
        for v in S.vars:
            if v["ent"] != ent.key:
                continue
            h = pop.get_holder(v["name"])
            holders.append([v["name"], [[enc_period(p), enc_array(h.get_array(p), v)]
                                        for p in h.get_known_periods()]])
        out.append([ent.key, ids, mem, roles, pos, holders])
    return out


def build_one(S, doc):
    from common import errkind
    try:
        sim = SimulationBuilder().build_from_dict(S.tbs, copy.deepcopy(doc))
        if sim is None:
            return Err("EOther", "build_from_dict returned None")
        return observe(S, sim)
    except Exception as e:  # noqa: BLE001
        return Err(errkind(e), f"{type(e).__name__}: {e}"[:200])


SCALE_MARKS = [0, 1, 127, 128, 255, 256, 32766, 32767, 32768, 32769, 65535, 65536]


def scale_doc(c):
    """Many persons, no group declared: built here, not stored in the case."""
    n = c["n"]
    marks = [i for i in SCALE_MARKS if i < n] + [n - 1]
    persons = {f"p{i}": {} for i in range(n)}
    for i in marks:
        persons[f"p{i}"] = {"p_int_m": {"2018-01": i % 1000 + 1}, "p_big_e": {"ETERNITY": BIG_NAMES[i % 150]}}
    return {"persons": persons}, marks


def run_scale(c):
    S = SYSTEMS[c["sys"]]
    doc, marks = scale_doc(c)
    sim = SimulationBuilder().build_from_dict(S.tbs, doc)
    n = c["n"]
    out = [int(sim.persons.count), [str(sim.persons.ids[i]) for i in marks]]
    for g in S.groups:
        pop = sim.populations[g.key]
        mem = numpy.asarray(pop.members_entity_id).astype("int64")
        bad = numpy.nonzero(mem != numpy.arange(len(mem)))[0]
        roles = numpy.atleast_1d(pop.members_role)
        out.append([g.key, int(pop.count), len(mem), int(bad[0]) if len(bad) else -1,
                    int(mem[bad[0]]) if len(bad) else 0,
                    all(r.key == S.flattened(g.key)[0] for r in roles[marks]),
                    [str(pop.ids[i]) for i in marks]])
    a = sim.persons.get_holder("p_int_m").get_array("2018-01")
    e = sim.persons.get_holder("p_big_e").get_array("eternity")
    out.append([[int(a[i]) for i in marks], [int(e[i]) for i in marks], int((a != 0).sum())])
    return out


def check_scale(c, o):
    n = c["n"]
    marks = [i for i in SCALE_MARKS if i < n] + [n - 1]
    if o[0] != n or o[1] != [f"p{i}" for i in marks]:
        return f"scale ids: {o[0]} persons built for {n} declared"
    for g in o[2:-1]:
        key, count, nmem, bad, badval, roles_ok, ids = g
        if count != n or nmem != n:
            return f"scale own-groups: {count} {key} groups / {nmem} memberships for {n} persons left out"
        if bad != -1:
            return f"scale own-groups: person #{bad} is in {key} group {badval}, not in a group of its own"
        if not roles_ok or ids != [f"p{i}" for i in marks]:
            return f"scale own-groups: roles / ids of the {key} groups are not those of the persons"
    vals, enums, nonzero = o[-1]
    if vals != [i % 1000 + 1 for i in marks] or nonzero != len(set(marks)):
        return f"scale value: declared values read back as {vals} ({nonzero} persons hold a value)"
    if enums != [i % 150 for i in marks]:
        return f"scale value: declared enum members read back as {enums}"
    return None


WARM_UP = {"persons": {"w1": {"p_int_m": {"2018-01": 1}}, "w2": {}},
           "households": {"wh": {"parents": ["w1"], "h_rent": {"2018-01": 9}}}}


class _NoChange(Reform):
    def apply(self):
        pass


def build_with_history(c, doc, mode):
    """The same situation after different histories of the tax-benefit system / the builder."""
    from common import errkind
    ref = SYSTEMS[c["sys"]]
    try:
        S = System(ref.name, ref.group_desc, ref.vars)          # a system that never built anything
        tbs = S.tbs
        if mode != "fresh":
            SimulationBuilder().build_from_dict(tbs, copy.deepcopy(WARM_UP))
        if mode == "clone":
            tbs = tbs.clone()
        elif mode == "reform":
            tbs = _NoChange(tbs)
        elif mode == "clone_fresh":
            tbs = System(ref.name, ref.group_desc, ref.vars).tbs.clone()     # cloned before any build
        elif mode == "twice":
            SimulationBuilder().build_from_dict(tbs, copy.deepcopy(doc))
        sim = SimulationBuilder().build_from_dict(tbs, copy.deepcopy(doc))
        if sim is None:
            return Err("EOther", "build_from_dict returned None")
        return observe(S, sim)
    except Exception as e:  # noqa: BLE001
        return Err(errkind(e), f"{type(e).__name__} ({mode}): {e}"[:200])


def run_impl(c):
    if c["kind"] == "scale":
        return run_scale(c)
    if c["kind"] == "history":
        return [build_with_history(c, d, m) for d, m in zip(c["docs"], c["meta"]["modes"])]
    S = SYSTEMS[c["sys"]]
    return [build_one(S, d) for d in c["docs"]]


def obs_for_coq(c, o):
    # the scale stream is checked on the implementation only
    return [] if c["kind"] == "scale" else o


# ---- naive reading of a document (oracle side) ------------------------------------------------

def shape_of(S, doc):
    keys = set(doc)
    sing = {e.key for e in S.entities}
    plur = {e.plural for e in S.entities}
    if keys & sing:
        return "short"
    if keys and all(k == "axes" or k in plur for k in keys):
        return "full"
    return "vars"


def normalise(S, doc):
    """Entity-shaped document with plural keys only (the single-entity shortcut made explicit)."""
    out = {}
    for k, v in doc.items():
        if k in {e.key for e in S.entities}:
            out[S.plural(k)] = {k: v}
    for k, v in doc.items():
        if k not in {e.key for e in S.entities} and k not in out:
            out[k] = v
    return out


def as_list(x):
    if isinstance(x, (str, int)):
        x = [x]
    return [str(i) if isinstance(i, int) else i for i in x]


def expected_cell(v, value):
    """What a declared JSON value reads back as (None: not claimed)."""
    t = v["type"]
    if isinstance(value, bool):
        return {"int": int(value), "float": fractions.Fraction(int(value)), "bool": value}.get(t)
    if t == "int":
        return value if isinstance(value, int) else None
    if t == "float":
        return fractions.Fraction(value) if isinstance(value, (int, float)) else None
    if t == "bool":
        return None
    if t == "enum":
        return enum_names(v).index(value) if isinstance(value, str) and value in enum_names(v) else None
    if t == "date":
        if isinstance(value, str) and RE_YMD.match(value):
            try:
                return datetime.date.fromisoformat(value).toordinal() - EPOCH
            except ValueError:
                return None
        return None
    return value if isinstance(value, str) else None


def holder_map(obs, ent_key):
    for e in obs:
        if e[0] == ent_key:
            return {name: {tuple(p): a for p, a in entries} for name, entries in e[5]}, e
    return {}, None


def sub_periods(P, unit):
    return [enc_period(q) for q in P.get_subperiods(unit)]


def declared_periods(S, instances):
    """variable -> periods declared (with a value) by any instance: arrays are set whole, so a period
    declared for one instance is declared (with the default) for the others."""
    out = {}
    for fields in instances:
        for vn, vals in fields.items():
            if vn in S.var and isinstance(vals, dict):
                for k, value in vals.items():
                    if value is not None:
                        out.setdefault(vn, []).append(periods.period(str(periods.period(k))))
    return out


def check_values(S, ent_key, index, fields, obs, where, declared, strict=False):
    """Every declared (variable, key, value) of one instance reads back at the period the key denotes."""
    hm, _ = holder_map(obs, ent_key)
    for vn, vals in fields.items():
        v = S.var.get(vn)
        if v is None or not isinstance(vals, dict):
            continue
        du = UNITS[UNAME.index(v["unit"])]
        # several keys may denote the same period: the last one wins
        last = {}
        for k, value in vals.items():
            if value is None:
                continue
            P = periods.period(k)
            # entity shapes: the key denotes the period of its canonical text
            last[str(P)] = (P if strict else periods.period(str(P)), value, k)
        shorter = declared.get(vn, [])
        for P, value, k in last.values():
            exp = expected_cell(v, value)
            if exp is None:
                continue
            known = hm.get(vn, {})
            if v["end"] and P.unit != DateUnit.ETERNITY and P.start.date > datetime.date(*v["end"]):
                continue
            if v["unit"] == "eternity":
                a = known.get(tuple(enc_period(periods.period("eternity"))))
                # any period addresses the single eternal value: the last flushed wins, claimed only
                # when a single key was given
                if len(last) == 1 and (a is None or a[index] != exp):
                    return f"value: {where}.{vn}[{k}] = {value!r} reads back as {None if a is None else a[index]!r}"
                continue
            if P.unit == du and P.size == 1:
                a = known.get(tuple(enc_period(P)))
                if a is None or a[index] != exp:
                    return f"value: {where}.{vn}[{k}] = {value!r} reads back as {None if a is None else a[index]!r}"
            elif v["rule"] != "none" and periods.unit_weight(P.unit) >= periods.unit_weight(du) \
                    and P.unit != DateUnit.ETERNITY:
                subs = sub_periods(P, du)
                arrs = [known.get(tuple(s)) for s in subs]
                if any(a is None for a in arrs):
                    return f"value: {where}.{vn}[{k}]: a sub-period of the declared period has no value"
                if v["rule"] == "divide":
                    tot = sum(fractions.Fraction(a[index]) for a in arrs)
                    if tot != exp:
                        return f"value: {where}.{vn}[{k}] = {value!r} but its sub-periods sum to {tot}"
                else:
                    # dispatch: sub-periods not covered by a more specific declaration hold the value
                    for s, a in zip(subs, arrs):
                        sp = periods.Period((UNITS[s[0]], periods.Instant((s[1], s[2], s[3])), s[4]))
                        covered = any(Q != P and Q.contains(sp) and
                                      (periods.unit_weight(Q.unit), Q.size) < (periods.unit_weight(P.unit), P.size)
                                      for Q in shorter)
                        if not covered and a[index] != exp:
                            return (f"value: {where}.{vn}[{k}] = {value!r} but sub-period {s} holds "
                                    f"{a[index]!r} and nothing more specific was declared")
    return None


def check_entities_doc(S, doc, obs):
    """The clauses of the property for one well-formed entity-shaped document."""
    d = normalise(S, doc)
    persons = [str(p) for p in d["persons"].keys()]
    pe = obs[0]
    if pe[1] != persons:
        return f"ids: persons are {pe[1]} but {persons} were declared"
    decl = declared_periods(S, d["persons"].values())
    for i, (pid, fields) in enumerate(d["persons"].items()):
        msg = check_values(S, "person", i, fields, obs, f"persons.{pid}", decl)
        if msg:
            return msg
    for gi, g in enumerate(S.groups):
        ge = obs[1 + gi]
        ids, mem, roles = ge[1], ge[2], ge[3]
        inst = d.get(g.plural)
        flat = S.flattened(g.key)
        if len(mem) != len(persons) or len(roles) != len(persons):
            return f"membership: {g.plural} has {len(mem)} members for {len(persons)} persons"
        if inst is None:
            declared, allocated = [], {}
        else:
            declared = [str(k) for k in inst.keys()]
            allocated = {}
            for gidx, (gid, fields) in enumerate(inst.items()):
                for r in S.roles(g.key):
                    rn = r.get("plural") or r["key"]
                    for rank, pid in enumerate(as_list(fields.get(rn, []))):
                        sub = r.get("subroles")
                        allocated[pid] = (gidx, sub[rank] if sub else r["key"])
        if ids[:len(declared)] != declared:
            return f"ids: {g.plural} are {ids} but {declared} were declared, in this order"
        own = [p for p in persons if p not in allocated]
        if sorted(ids[len(declared):]) != sorted(own):
            return f"own-groups: {g.plural} beyond the declared ones are {ids[len(declared):]}, persons left out are {own}"
        for i, pid in enumerate(persons):
            if pid in allocated:
                if (mem[i], roles[i]) != allocated[pid]:
                    return (f"membership: {pid} is in {g.plural}[{mem[i]}] as {roles[i]}, declared "
                            f"{allocated[pid]}")
            else:
                if not (len(declared) <= mem[i] < len(ids)) or ids[mem[i]] != pid or mem.count(mem[i]) != 1:
                    return f"own-groups: {pid} was left out of {g.plural} but is in group {mem[i]} of {ids}"
                if roles[i] != flat[0]:
                    return f"own-groups: {pid} has role {roles[i]} in its own group, expected {flat[0]}"
        # positions: ranks among the members of each group, in person order
        seen = {}
        for i in range(len(persons)):
            if ge[4][i] != seen.get(mem[i], 0):
                return f"positions: {ge[4]} for memberships {mem}"
            seen[mem[i]] = seen.get(mem[i], 0) + 1
        # own groups hold default values
        for vn, entries in ge[5]:
            dflt = type_default(S.var[vn])
            if isinstance(dflt, float):
                dflt = fractions.Fraction(dflt)
            for p, a in entries:
                if len(a) != len(ids):
                    return f"own-groups: {vn} has {len(a)} values for {len(ids)} {g.plural}"
                for j in range(len(declared), len(ids)):
                    if a[j] != dflt:
                        return f"own-groups: {vn}{p} holds {a[j]!r} in the group made for {ids[j]}, default is {dflt!r}"
        if inst is not None:
            decl = declared_periods(S, inst.values())
            for gidx, (gid, fields) in enumerate(inst.items()):
                rnames = {r.get("plural") or r["key"] for r in S.roles(g.key)}
                msg = check_values(S, g.key, gidx, {k: x for k, x in fields.items() if k not in rnames},
                                   obs, f"{g.plural}.{gid}", decl)
                if msg:
                    return msg
    return None


def check_vars_doc(S, doc, obs):
    first = next(iter(doc.values()), None)
    if isinstance(first, dict):
        first = next(iter(first.values()), None)
    n = len(first) if isinstance(first, list) else 1
    for e in obs:
        if e[1] != [str(i) for i in range(n)]:
            return f"ids: {e[0]} ids are {e[1]}, expected 0..{n - 1}"
        if e[0] != "person" and e[2] != list(range(n)):
            return f"membership: default simulation has {e[2]}"
    for vn, vals in doc.items():
        v = S.var[vn]
        decl = {vn: [periods.period(k) for k in vals]}
        for i in range(n):
            per = {k: (x[i] if isinstance(x, list) else x) for k, x in vals.items()}
            msg = check_values(S, v["ent"], i, {vn: per}, obs, f"{vn}[{i}]", decl, strict=True)
            if msg:
                return msg
    return None


def check_doc(S, doc, obs):
    if shape_of(S, doc) == "vars":
        return check_vars_doc(S, doc, obs)
    return check_entities_doc(S, doc, obs)


def check_axes(S, c, o):
    """docs[0] has axes; docs[1:] are the copies it stands for, one per cell."""
    big, copies = o[0], o[1:]
    if isinstance(big, Err):
        return f"axes: the document with axes was refused ({big.kind}: {big.msg})"
    for k, cp in enumerate(copies):
        if isinstance(cp, Err):
            return None     # a copy that does not build: nothing to compare with
    ncell = len(copies)
    ordered = c["meta"]["ordered"]
    for ei, be in enumerate(big):
        base = copies[0][ei]
        n = len(base[1])
        if len(be[1]) != n * ncell:
            return f"axes: {be[0]} has {len(be[1])} instances, {ncell} copies of {n} expected"
        for k in range(ncell):
            ce = copies[k][ei]
            for i in range(n):
                if be[1][k * n + i] != ce[1][i] + str(k * n + i):
                    return f"axes: id {be[1][k * n + i]} at {k * n + i}, copy has {ce[1][i]}"
        if ei > 0:
            np_ = len(base[2])
            exp_mem = [m + k * n for k in range(ncell) for m in copies[k][ei][2]]
            exp_roles = [r for k in range(ncell) for r in copies[k][ei][3]]
            if be[2] != exp_mem or be[3] != exp_roles:
                return f"axes: memberships/roles of {be[0]} are {be[2]} {be[3]}, the copies give {exp_mem} {exp_roles}"
        bh = {name: {tuple(p): a for p, a in entries} for name, entries in be[5]}
        for vi, (name, _) in enumerate(be[5]):
            per = set(bh[name])
            chs = [{tuple(p): a for p, a in copies[k][ei][5][vi][1]} for k in range(ncell)]
            for ch in chs:
                per |= set(ch)
            for p in sorted(per):
                if p not in bh[name] or any(p not in ch for ch in chs):
                    return f"axes: {name} is known for {p} on one side only"
                blocks = [bh[name][p][k * n:(k + 1) * n] for k in range(ncell)]
                exp = [ch[p] for ch in chs]
                if (blocks != exp) if ordered else (sorted(map(repr, blocks)) != sorted(map(repr, exp))):
                    return f"axes: {name}{list(p)} is {bh[name][p]}, the copies give {exp}"
    return None


def oracle(c, o):
    if isinstance(o, Err):
        if c["kind"] == "scale":
            return f"scale well-formed: {c['n']} persons without declared groups were refused ({o.kind}: {o.msg[:120]})"
        return f"harness: run_impl failed: {o.kind} {o.msg}"
    S = SYSTEMS[c["sys"]]
    kind = c["kind"]
    if kind == "scale":
        return check_scale(c, o)
    if kind == "mutant":
        r = o[0]
        if isinstance(r, Err):
            if r.kind == "ESituation":
                return None
            return f"ill-formed {c['mut']}: refused with {r.kind} ({r.msg[:80]}), not with a situation error"
        return f"ill-formed {c['mut']}: a simulation was produced"
    if kind == "axes":
        msg = check_axes(S, c, o)
        if msg:
            return msg
        docs = list(zip(c["docs"][1:], o[1:]))
    else:
        docs = list(zip(c["docs"], o))
    for d, r in docs:
        if isinstance(r, Err):
            return f"well-formed: a well-formed document was refused ({r.kind}: {r.msg[:120]})"
        msg = check_doc(S, d, r)
        if msg:
            return msg
    if kind == "spelling":
        for r in o[1:]:
            if r != o[0]:
                return "spelling: two spellings of the same document build different simulations"
    if kind == "history":
        for r, m in zip(o[1:], c["meta"]["modes"][1:]):
            if r != o[0]:
                return (f"history: the situation built on a system with history '{m}' differs from the one "
                        f"built on a fresh system")
    return None


def known(c, o, msg):
    if c["kind"] == "mutant" and c.get("shape") == "vars" and msg.startswith("ill-formed") \
            and not isinstance(o, Err) and isinstance(o[0], Err):
        return "variables-only-ill-formed-non-situation-error"
    return None


def nontrivial(c, o):
    if isinstance(o, Err):
        return False
    if c["kind"] in ("mutant", "scale"):
        return True
    return any(not isinstance(r, Err) and any(entries for e in r for _, entries in e[5]) for r in o)


def classify(c, o):
    if c["kind"] == "scale":
        return f"scale/sys{c['sys']}"
    if c["kind"] == "mutant":
        res = "?" if isinstance(o, Err) else (o[0].kind if isinstance(o[0], Err) else "built")
        return f"mutant/{c['shape']}/{c['mut']}/{res}"
    return f"{c['kind']}/{c['shape']}/sys{c['sys']}"


# ---- generation ----------------------------------------------------------------------------------

class P:
    """An abstract period key: rendered with a random spelling."""

    def __init__(self, unit, y=0, m=1, d=1, size=1, tag=0):
        self.unit, self.y, self.m, self.d, self.size, self.tag = unit, y, m, d, size, tag

    def spellings(self, strict=False):
        """Texts denoting this period.  strict: only texts that periods.period parses to the very same
        period (the variables-only shape does not go through the canonical text)."""
        if strict:
            sp = self.spellings()
            P0 = periods.period(sp[0])
            if self.unit == "month" and self.size == 12:
                P0 = periods.period(f"month:{self.y:04d}-{self.m:02d}:12")
            return [t for t in sp if periods.period(t) == P0]
        u, y, m, d, n = self.unit, self.y, self.m, self.d, self.size
        ym, ymd = f"{y:04d}-{m:02d}", f"{y:04d}-{m:02d}-{d:02d}"
        if u == "eternity":
            return ["ETERNITY", "eternity", "Eternity"]
        if u == "month" and n == 1:
            return [ym, f"month:{ym}", f"month:{ym}:1", f"month:{ym}-01", f"month:{ym}-01:1", f"month:{ym}:+1",
                    f"month:{ym}:01"]
        if u == "month" and n == 12:
            return self.year_spellings() + [f"month:{ym}:12"]
        if u == "month":
            return [f"month:{ym}:{n}", f"month:{ym}-01:{n}", f"month:{ym}:+{n}"]
        if u == "year" and n == 1:
            return self.year_spellings()
        if u == "year":
            return [f"year:{y:04d}:{n}", f"year:{ym}:{n}", f"year:{ym}-01:{n}"] if m == 1 else \
                   [f"year:{ym}:{n}", f"year:{ym}-01:{n}"]
        if u == "day" and n == 1:
            return [ymd, f"day:{ymd}", f"day:{ymd}:1"]
        if u == "day":
            return [f"day:{ymd}:{n}", f"day:{ymd}:+{n}"]
        if u == "weekday":
            return [f"weekday:{ymd}", f"weekday:{ymd}:1"] if n == 1 else [f"weekday:{ymd}:{n}"]
        if u == "week":     # (y, m, d) is a Monday
            dd = datetime.date(y, m, d)
            alt = dd + datetime.timedelta(days=2 + self.tag % 4)
            base = [f"week:{ymd}", f"week:{ymd}:1", f"week:{alt.isoformat()}"] if n == 1 else \
                   [f"week:{ymd}:{n}", f"week:{alt.isoformat()}:{n}"]
            return base
        raise ValueError(u)

    def year_spellings(self):
        y, m = self.y, self.m
        ym = f"{y:04d}-{m:02d}"
        if m == 1:
            return [f"{y:04d}", f"year:{y:04d}", f"year:{y:04d}:1", f"year:{ym}", f"year:{ym}-01", f"month:{ym}:12"]
        return [f"year:{ym}", f"year:{ym}:1", f"year:{ym}-01", f"month:{ym}:12"]


def render(x, rng, canonical=False, strict=False):
    """Abstract document -> JSON document (P keys get a spelling)."""
    if isinstance(x, dict):
        out = {}
        for k, v in x.items():
            if isinstance(k, P):
                sp = k.spellings(strict)
                t = sp[0] if canonical else rng.choice(sp)
                tries = 0
                while t in out and tries < 20:
                    t = rng.choice(sp)
                    tries += 1
                if t in out:
                    continue
                out[t] = render(v, rng, canonical, strict)
            else:
                out[k] = render(v, rng, canonical, strict)
        return out
    if isinstance(x, list):
        return [render(i, rng, canonical, strict) for i in x]
    return x


WORDS = ["abc", "owner", "x", "Tom", "n/a", "", "tenant"]
PERSON_IDS = ["a", "b", "c", "d", "e", "ann", "bob", "1", "2", "h1", "k1"]
GROUP_IDS = {"household": ["h1", "h2", "h3", "home", "a", "1"], "club": ["k1", "k2", "club9", "b"]}


def gen_value(rng, v, divisible=False):
    t = v["type"]
    if t == "int":
        if divisible:
            return BASE * rng.randint(-3, 40)
        r = rng.random()
        if r < 0.08:
            return rng.choice([True, False])
        if r < 0.16:
            return rng.randint(-50, 50) + rng.choice([0.0, 0.25, 0.5, 0.75])
        if r < 0.22:
            return str(rng.randint(0, 3000))
        return rng.choice([0, 1, -1, 2**24 - 1, rng.randint(-1000, 100000)])
    if t == "float":
        if divisible:
            return rng.choice([float, int])(BASE * rng.randint(-3, 40))
        r = rng.random()
        if r < 0.3:
            return rng.randint(-1000, 100000)
        if r < 0.36:
            return rng.choice(["2.5", "12", "-0.75", "1980"])
        return rng.randint(-4000, 400000) / 4
    if t == "bool":
        return rng.choice([True, False])
    if t == "enum":
        names = enum_names(v)
        if len(names) > 128 and rng.random() < 0.7:
            return names[rng.choice([126, 127, 128, 129, 130, 149, rng.randint(128, 149)])]
        return rng.choice(names)
    if t == "date":
        return datetime.date.fromordinal(rng.randint(datetime.date(1900, 1, 1).toordinal(),
                                                     datetime.date(2030, 12, 31).toordinal())).isoformat()
    return rng.choice(WORDS)


ISO_BOUNDARY_MONDAYS = [datetime.date(2013, 12, 30), datetime.date(2014, 12, 29), datetime.date(2018, 12, 31),
                        datetime.date(2019, 12, 30), datetime.date(2015, 12, 28), datetime.date(2020, 12, 28)]
ISO_BOUNDARY_DAYS = [datetime.date(2016, 1, 1), datetime.date(2021, 1, 3), datetime.date(2013, 12, 31),
                     datetime.date(2018, 12, 31), datetime.date(2019, 12, 30), datetime.date(2017, 1, 1)]


def monday(rng):
    if rng.random() < 0.35:
        return rng.choice(ISO_BOUNDARY_MONDAYS)     # the ISO year of the week is not the year of its Monday
    d = datetime.date(2018, 1, 1) + datetime.timedelta(weeks=rng.randint(0, 120))
    return d


def gen_plan(rng, v):
    """Period keys usable for one variable in one document: nested, never fully covered."""
    u, rule = v["unit"], v["rule"]
    if v["end"] and rng.random() < 0.75:
        # around the end date: the period starting exactly on it is still an input, later ones are dropped
        ey, em, ed = v["end"]
        end = datetime.date(ey, em, ed)
        if u == "day":
            ds = [end + datetime.timedelta(days=k) for k in (-2, -1, 0, 1, 2)]
            ps = [P("day", d.year, d.month, d.day) for d in ds if rng.random() < 0.7] or [P("day", ey, em, ed)]
            if rule != "none" and rng.random() < 0.4:
                ps.append(P("month", ey, em))
            return ps
        if u == "month":
            ms = [(ey * 12 + em - 1 + k) for k in (-2, -1, 0, 1)]
            return [P("month", m // 12, m % 12 + 1) for m in ms if rng.random() < 0.7] or [P("month", ey, em)]
        if u == "year":
            return [P("year", yy) for yy in (ey - 1, ey, ey + 1) if rng.random() < 0.7] or [P("year", ey)]
    y = rng.choice([2017, 2018, 2018, 2019, 2020])
    if u == "eternity":
        ps = [P("eternity")]
        if rng.random() < 0.2:
            ps = [P("year", y)]
        return ps
    if u == "month":
        months = rng.sample(range(1, 13), rng.randint(1, 4))
        ps = [P("month", y, m) for m in months]
        if rng.random() < 0.25:
            ps.append(P("month", y, months[0], tag=1))      # a second spelling of the same month
        if rule != "none":
            if rng.random() < 0.6:
                q = rng.choice([1, 4, 7, 10])
                if sum(1 for m in months if q <= m < q + 3) < 3:
                    ps.append(P("month", y, q, size=3))
            r = rng.random()
            if r < 0.5:
                ps.append(rng.choice([P("year", y), P("month", y, 1, size=12)]))
            elif r < 0.65:
                ps.append(P("year", y, rng.randint(2, 12)))     # rolling year
            elif r < 0.85 and not any(p.size == 3 and p.m == 10 for p in ps):
                # ten or eleven months from January: "200_10" sorts before "200_3" as text
                ps.append(P("month", y, 1, size=rng.choice([10, 11])))
        return ps
    if u == "year":
        ps = [P("year", yy) for yy in rng.sample([2016, 2017, 2018, 2019, 2020, 2021], rng.randint(1, 3))]
        if rng.random() < 0.2:
            ps.append(P("month", ps[0].y, 1, size=12))
        if rule != "none" and rng.random() < 0.5:
            k = rng.choice([2, 3, 5])
            # the long period keeps at least one year that is not declared on its own
            ps = [p for p in ps if not (p.unit == "year" and p.y == 2018 + k - 1)
                  and not (p.unit == "month" and p.y == 2018 + k - 1)]
            ps.append(P("year", 2018, size=k))
        return ps
    if u == "day":
        ps = [P("day", y, rng.randint(1, 12), rng.randint(1, 28)) for _ in range(rng.randint(1, 3))]
        if rule != "none" and rng.random() < 0.5:
            ps.append(P("month", y, ps[0].m))
        if rule != "none" and rng.random() < 0.3:
            ps.append(P("day", y, ps[0].m, 1, size=rng.randint(2, 9)))
        return ps
    if u == "week":
        out = []
        for i in range(rng.randint(1, 3)):
            d = monday(rng)
            out.append(P("week", d.year, d.month, d.day, tag=rng.randint(0, 3)))
        return out
    if u == "weekday":
        out = []
        for i in range(rng.randint(1, 3)):
            d = rng.choice(ISO_BOUNDARY_DAYS) if rng.random() < 0.5 else \
                datetime.date(2018, 1, 1) + datetime.timedelta(days=rng.randint(0, 800))
            out.append(P("weekday", d.year, d.month, d.day))
        return out
    raise ValueError(u)


def gen_fields(rng, S, ent_key, plans, density=0.5):
    out = {}
    cands = [v for v in S.vars if v["ent"] == ent_key]
    rng.shuffle(cands)
    if rng.random() < 0.35:
        cands.sort(key=lambda v: not v["end"])       # variables with an end date first
    for v in cands[:rng.randint(0, 4)]:
        if v["name"] not in plans:
            plans[v["name"]] = gen_plan(rng, v)
        plan = plans[v["name"]]
        chosen = [p for p in plan if rng.random() < density] or [rng.choice(plan)]
        rng.shuffle(chosen)
        vals = {}
        for p in chosen:
            val = gen_value(rng, v, divisible=v["rule"] == "divide")
            if rng.random() < 0.04:
                val = None
            vals[p] = val
        out[v["name"]] = vals
    return out


def gen_groups(rng, S, g, persons, plans, all_in=False):
    """Instances of one group kind: persons spread over 0-3 groups, some left out."""
    roles = S.roles(g.key)
    pool = [x for x in GROUP_IDS[g.key]]
    rng.shuffle(pool)
    ngroups = rng.randint(1, 3) if rng.random() < 0.9 else 0
    todo = list(persons)
    rng.shuffle(todo)
    if not all_in and rng.random() < 0.5:
        todo = todo[:rng.randint(0, len(todo))]          # the others are left out
    inst = {}
    for gi in range(ngroups):
        fields = {}
        order = list(roles)
        rng.shuffle(order)
        for r in order:
            cap = len(r["subroles"]) if r.get("subroles") else r.get("max")
            k = rng.randint(0, min(len(todo), cap if cap is not None else 3))
            if gi == ngroups - 1 and all_in and cap is None:
                k = len(todo)
            members, todo = todo[:k], todo[k:]
            if not members and rng.random() < 0.5:
                continue
            spec = list(members)
            if len(spec) == 1 and rng.random() < 0.3:
                spec = spec[0]
                if spec.isdigit() and rng.random() < 0.5:
                    spec = int(spec)
            elif rng.random() < 0.2:
                spec = [int(s) if s.isdigit() and s == str(int(s)) else s for s in spec]
            fields[r.get("plural") or r["key"]] = spec
        extra = gen_fields(rng, S, g.key, plans)
        items = list(fields.items()) + list(extra.items())
        rng.shuffle(items)
        inst[pool[gi]] = dict(items)
    return inst


def gen_entities_doc(rng, S, short=False, with_axes=False):
    """Abstract (P-keyed) entity-shaped document."""
    n = rng.choice([1, 1, 2, 2, 3, 3, 4, 5])
    persons = rng.sample(PERSON_IDS, n)
    plans = {}
    doc = {}
    doc["persons"] = {p: gen_fields(rng, S, "person", plans) for p in persons}
    if short and rng.random() < 0.2:
        doc = {"person": gen_fields(rng, S, "person", plans)}
        persons = ["person"]
    for g in S.groups:
        if short and g is S.groups[0]:
            inst = gen_groups(rng, S, g, persons, plans)
            if inst:
                doc[g.key] = next(iter(inst.values()))
            else:
                doc[g.key] = {}
        elif with_axes or rng.random() < 0.7:
            doc[g.plural] = gen_groups(rng, S, g, persons, plans)
    items = list(doc.items())
    if rng.random() < 0.3:
        rng.shuffle(items)
    return dict(items), persons, plans


def gen_vars_doc(rng, S):
    n = rng.choice([1, 1, 2, 3, 4])
    cands = list(S.vars)
    rng.shuffle(cands)
    if rng.random() < 0.35:
        cands.sort(key=lambda v: not v["end"])
    doc = {}
    for v in cands[:rng.randint(1, 5)]:
        plan = gen_plan(rng, v)
        # no canonicalisation in this shape: a 12-month key stays a month period
        plan = [p for p in plan if not (p.unit == "month" and p.size == 12
                                        and (v["rule"] == "none" or v["unit"] == "year"))]
        plan = [p for p in plan if p.tag == 0 or p.unit == "week"] or [gen_plan(rng, v)[0]]
        chosen = [p for p in plan if rng.random() < 0.6] or [plan[0]]
        rng.shuffle(chosen)
        vals = {}
        for p in chosen:
            numeric = v["type"] in ("int", "float")
            for _ in range(30):
                xs = [gen_value(rng, v, divisible=v["rule"] == "divide") for _ in range(n)]
                if len({type(x) for x in xs}) == 1 and not (numeric and isinstance(xs[0], str)):
                    break
            else:
                x0 = next(x for x in (gen_value(rng, v, divisible=v["rule"] == "divide") for _ in range(99))
                          if not isinstance(x, str) or not numeric)
                xs = [x0] * n
            as_scalar = n == 1 and rng.random() < 0.5
            if as_scalar and numeric and v["rule"] != "divide" and rng.random() < 0.15:
                xs = [rng.choice(["12", "2.5", "-3", "1980"])]
            vals[p] = xs[0] if as_scalar else xs
        doc[v["name"]] = vals
    return doc


def axis_candidates(S):
    return [v for v in S.vars if v["type"] in ("int", "float", "bool", "enum") and v["rule"] == "none"
            and v["unit"] in ("month", "year") and not v["end"]]


def gen_axis(rng, S, v, count, counts, idx_max):
    t = v["type"]
    if t == "bool":
        mn, mx = rng.choice([(0, 1), (1, 0), (0, 0)])
    elif t == "enum" and v["enum"] == "big":
        mn = rng.choice([120, 126, 127, 128, 140])
        mx = mn + rng.choice([0, 1, 2, 3]) * max(count - 1, 1) if count > 1 else mn
    elif t == "enum":
        mn, mx = (0, 2) if count in (2, 3) else (rng.randint(0, 2),) * 2
        if count == 2 and rng.random() < 0.5:
            mn, mx = 2, 0
    elif t == "int" and rng.random() < 0.3:
        # integers that float32 cannot hold, up to the int32 range
        mn = rng.choice([2**24 + 1, 2**24 + 3, 2**25 + 1, 2_000_000_001, 2**31 - 1 - 4 * max(count - 1, 1)])
        step = rng.choice([1, 2, 3, 4])
        mx = mn + step * (count - 1) if count > 1 else mn
        if rng.random() < 0.3:
            mn, mx = mx, mn
    else:
        mn = rng.randint(-20, 200) * (1 if t == "int" else 0.25)
        step = rng.randint(0, 50) * (1 if t == "int" else 0.25)
        mx = mn + step * max(count - 1, 1) if count > 1 else rng.choice([mn, mn + step])
    y = rng.choice([2018, 2019])
    p = P("month", y, rng.randint(1, 12)) if v["unit"] == "month" else P("year", y)
    ax = {"count": count, "name": v["name"], "min": mn, "max": mx, "period": p}
    if rng.random() < 0.6:
        ax["index"] = rng.randint(0, idx_max)
    return ax


def linvalue(ax, k, count):
    mn, mx = fractions.Fraction(ax["min"]), fractions.Fraction(ax["max"])
    if count == 1:
        return mn
    return mn + k * (mx - mn) / (count - 1)


def to_json_number(S, vn, q):
    v = S.var[vn]
    if v["type"] == "float":
        return float(q)
    if v["type"] == "bool":
        return q != 0
    k = int(q) if q >= 0 else -int(-q)
    if v["type"] == "enum" and 0 <= k < len(enum_names(v)):
        return enum_names(v)[k]          # the copy names the member that the axis value stands for
    return k


def expand_copies(S, doc, axes_json):
    """The documents that a document with axes stands for, one per cell (first dimension fastest)."""
    dims = [axes_json[0]] + [[a[0]] for a in axes_json[1:]]
    counts = [d[0]["count"] for d in dims]
    ncell = 1
    for c_ in counts:
        ncell *= c_
    base = {k: v for k, v in doc.items() if k != "axes"}
    copies = []
    for k in range(ncell):
        coords, r = [], k
        for c_ in counts:
            coords.append(r % c_)
            r //= c_
        cp = copy.deepcopy(base)
        norm_keys = {e.key: e.plural for e in S.entities}
        for dim, coord, cnt in zip(dims, coords, counts):
            for ax in dim:
                v = S.var[ax["name"]]
                plural = S.plural(v["ent"])
                if plural in cp:
                    inst = cp[plural]
                    target = inst[list(inst.keys())[ax.get("index", 0)]]
                else:
                    target = cp[v["ent"]]           # single-entity shortcut
                P0 = str(periods.period(ax["period"]))
                fields = target.setdefault(ax["name"], {})
                for key in [key for key in fields if str(periods.period(key)) == P0]:
                    del fields[key]
                fields[ax["period"]] = to_json_number(S, ax["name"], linvalue(ax, coord, dim[0]["count"]))
        copies.append(cp)
    return copies


def gen_axes_case(rng, S):
    short = rng.random() < 0.25
    for _ in range(50):
        doc_abs, persons, plans = gen_entities_doc(rng, S, short=short, with_axes=True)
        if "person" in doc_abs:
            continue
        ok = all((g.plural in doc_abs) or (g.key in doc_abs) for g in S.groups)
        if ok:
            break
    doc = render(doc_abs, rng)
    if not short and rng.random() < 0.3:
        g0 = S.groups[0]
        if isinstance(doc.get(g0.plural), dict) and "vacant" not in doc[g0.plural] and "vacant" not in persons:
            doc[g0.plural]["vacant"] = rng.choice([{}, {"h_rent": {"2018-03": 5}}, {"parents": []}])
    cands = axis_candidates(S)
    ndim = rng.choice([1, 1, 1, 2, 2, 3])
    counts = [rng.randint(1, 4)] if ndim == 1 else [rng.randint(2, 3) for _ in range(ndim)]
    axes = []
    used = set()
    for di in range(ndim):
        v = rng.choice(cands)
        ent_plural = S.plural(v["ent"])
        ninst = len(doc[ent_plural]) if ent_plural in doc else 1
        if ninst == 0:
            v = next(x for x in cands if x["ent"] == "person")
            ninst = len(persons)
        dim = []
        same_ent = [x for x in cands if x["ent"] == v["ent"]]
        for x in [v] + ([rng.choice(same_ent)] if di == 0 and rng.random() < 0.4 else []):
            ax = gen_axis(rng, S, x, counts[di], counts, ninst - 1)
            sig = (ax["name"], str(periods.period(ax["period"].spellings()[0])), ax.get("index", 0))
            if sig in used:
                continue
            used.add(sig)
            dim.append(ax)
        if not dim:
            return None
        if di > 0 and rng.random() < 0.2:
            dim.append(gen_axis(rng, S, v, 7, counts, 0))      # ignored: only the first is kept
        axes.append(dim)
    # an axis variable/period may be set by one dimension only, otherwise the copies are ambiguous
    seen = set()
    for dim in axes[:1] + [d[:1] for d in axes[1:]]:
        for ax in dim:
            key = (ax["name"], ax["period"].spellings()[0], ax.get("index", 0))
            if key in seen:
                return None
            seen.add(key)
    axes_json = [[{k: (rng.choice(x.spellings()) if isinstance(x, P) else x) for k, x in ax.items()} for ax in dim]
                 for dim in axes]
    big = dict(doc)
    big["axes"] = axes_json
    copies = expand_copies(S, big, axes_json)
    return {"sys": S.name, "kind": "axes", "shape": "short" if short else "full", "docs": [big] + copies,
            "mut": None, "meta": {"ordered": ndim <= 2}}


# ---- mutations ---------------------------------------------------------------------------------

BAD_PERIODS = ["2018-13", "month:2018", "foo", "2018-02-30", "month:2018-01:x", "eternity:2018", "2018-1",
               "day:2018-02", "18-01", "month:2018-00", "year:2018:1:1", "2019-02-29"]
BAD_DATES = ["2019-02-29", "1980-02-30", "2018-13-01", "1999-04-31", "2018-00-10", "yesterday", "1900-02-29"]


def instances_of(S, doc):
    """(entity, instance id, fields dict) of an entity-shaped JSON document, in place."""
    out = []
    for e in S.entities:
        if isinstance(doc.get(e.plural), dict):
            out += [(e, k, f) for k, f in doc[e.plural].items() if isinstance(f, dict)]
        if isinstance(doc.get(e.key), dict):
            out.append((e, e.key, doc[e.key]))
    return out


def mismatch_key(rng, v):
    u = v["unit"]
    if u == "month":
        return rng.choice(["2018", "ETERNITY", "2018-01-15", "month:2018-01:3", "year:2018-03", "eternity",
                           "month:2018-01:12"] if v["rule"] == "none" else ["ETERNITY", "eternity"])
    if u == "year":
        return rng.choice(["2018-01", "ETERNITY", "year:2018:2", "2018-01-01", "month:2018-01:3"]
                          if v["rule"] == "none" else ["ETERNITY"])
    if u == "day":
        return rng.choice(["ETERNITY", "eternity"])
    if u == "week":
        return rng.choice(["2018", "2018-01", "2018-01-01", "ETERNITY", "week:2018-01-01:2"])
    if u == "weekday":
        return rng.choice(["2018", "2018-01", "ETERNITY", "weekday:2018-01-01:2", "week:2018-01-01"])
    return None


def mutate_entities(rng, S, doc, cls):
    d = copy.deepcopy(doc)
    insts = instances_of(S, d)
    persons = [k for e, k, f in insts if e.is_person]
    groups = [(e, k, f) for e, k, f in insts if not e.is_person]
    if cls == "unknown_entity":
        key = rng.choice(["families", "dogs", "householdz", "Persons", "person_", "firms"])
        d[key] = rng.choice([{}, {"f": {}}, {"f": {"members": persons[:1]}}])
        return d
    if cls in ("unknown_variable", "other_entity_variable"):
        e, k, f = rng.choice(insts)
        if cls == "unknown_variable":
            name = rng.choice(["nonex", "salary", "p_int", "parent", "Parents", "h_rent_", "axes"])
        else:
            others = [v for v in S.vars if v["ent"] != e.key]
            name = rng.choice(others)["name"]
        f[name] = {"2018-01": 1}
        return d
    if cls == "unknown_person":
        if not groups:
            return None
        e, k, f = rng.choice(groups)
        r = rng.choice(S.roles(e.key))
        rn = r.get("plural") or r["key"]
        cur = as_list(f.get(rn, []))
        if r.get("max") is not None and len(cur) >= r["max"] or r.get("subroles") and len(cur) >= len(r["subroles"]):
            cur = cur[:-1]
        f[rn] = cur + [rng.choice(["zz", "nobody", "A", "a ", "0"])]
        if f[rn][-1] in persons:
            return None
        return d
    if cls == "duplicate_membership":
        if not groups:
            return None
        placed = [(e, k, f, rn, pid) for e, k, f in groups for r in S.roles(e.key)
                  for rn in [r.get("plural") or r["key"]] for pid in as_list(f.get(rn, []))]
        if not placed:
            return None
        e, k, f, rn, pid = rng.choice(placed)
        same_kind = [(e2, k2, f2) for e2, k2, f2 in groups if e2 is e]
        e2, k2, f2 = rng.choice(same_kind)
        free = [r for r in S.roles(e.key) if r.get("max") is None and not r.get("subroles")]
        r2 = rng.choice(free)
        rn2 = r2.get("plural") or r2["key"]
        f2[rn2] = as_list(f2.get(rn2, [])) + [pid]
        return d
    if cls == "too_many_role":
        capped = [(e, k, f, r) for e, k, f in groups for r in S.roles(e.key)
                  if r.get("max") is not None or r.get("subroles")]
        if not capped:
            return None
        e, k, f, r = rng.choice(capped)
        cap = len(r["subroles"]) if r.get("subroles") else r["max"]
        rn = r.get("plural") or r["key"]
        # take persons out of every group of this kind, then give cap+1 of them this role
        if len(persons) < cap + 1:
            return None
        chosen = rng.sample(persons, cap + 1)
        for e2, k2, f2 in groups:
            if e2 is e:
                for r2 in S.roles(e.key):
                    rn2 = r2.get("plural") or r2["key"]
                    if rn2 in f2:
                        f2[rn2] = [p for p in as_list(f2[rn2]) if p not in chosen]
        f[rn] = chosen
        return d
    if cls in ("text_for_number", "unknown_enum", "impossible_date"):
        typ = {"text_for_number": ("int", "float"), "unknown_enum": ("enum",), "impossible_date": ("date",)}[cls]
        e, k, f = rng.choice(insts)
        vs = [v for v in S.vars if v["ent"] == e.key and v["type"] in typ]
        if not vs:
            return None
        v = rng.choice(vs)
        bad = {"text_for_number": rng.choice(["abc", "twelve", "n/a", "ten euros", "x1"]),
               "unknown_enum": rng.choice(["nope", "Red", "RED", "yellow", "r", ""]),
               "impossible_date": rng.choice(BAD_DATES)}[cls]
        key = P(*{"month": ("month", 2018, 3), "year": ("year", 2018), "day": ("day", 2018, 3, 4),
                  "week": ("week", 2018, 1, 1), "weekday": ("weekday", 2018, 1, 3),
                  "eternity": ("eternity",)}[v["unit"]])
        cur = f.get(v["name"])
        if not isinstance(cur, dict):
            cur = {}
        # keep the other declarations; the bad value goes under a fresh or an existing key
        cur = dict(cur)
        cur[rng.choice(key.spellings())] = bad
        f[v["name"]] = cur
        return d
    if cls == "unparsable_period":
        e, k, f = rng.choice(insts)
        vs = [v for v in S.vars if v["ent"] == e.key]
        v = rng.choice(vs)
        cur = dict(f.get(v["name"]) or {}) if isinstance(f.get(v["name"]), dict) else {}
        cur[rng.choice(BAD_PERIODS)] = gen_value(rng, v, divisible=v["rule"] == "divide")
        items = list(cur.items())
        rng.shuffle(items)
        f[v["name"]] = dict(items)
        return d
    if cls == "mismatched_period":
        e, k, f = rng.choice(insts)
        vs = [v for v in S.vars if v["ent"] == e.key and v["unit"] != "eternity" and not v["end"]]
        v = rng.choice(vs)
        key = mismatch_key(rng, v)
        if key is None:
            return None
        f[v["name"]] = {key: gen_value(rng, v, divisible=v["rule"] == "divide")}
        return d
    raise ValueError(cls)


def gen_array_value(rng, v):
    """A value usable inside an array of the variables-only shape (no texts for numbers)."""
    while True:
        x = gen_value(rng, v, divisible=v["rule"] == "divide")
        if not (isinstance(x, str) and v["type"] in ("int", "float")):
            return x


def mutate_vars(rng, S, doc, cls):
    d = copy.deepcopy(doc)
    n = 1
    first = next(iter(d.values()))
    first = next(iter(first.values()))
    n = len(first) if isinstance(first, list) else 1

    def arr(x):
        return [x] * n if (n > 1 or isinstance(first, list)) else x
    if cls == "unknown_variable":
        d[rng.choice(["nonex", "salary", "p_int"])] = {"2018-01": arr(1)}
        return d
    if cls in ("text_for_number", "unknown_enum", "impossible_date"):
        typ = {"text_for_number": ("int", "float"), "unknown_enum": ("enum",), "impossible_date": ("date",)}[cls]
        v = rng.choice([v for v in S.vars if v["type"] in typ])
        bad = {"text_for_number": rng.choice(["abc", "twelve", "x"]),
               "unknown_enum": rng.choice(["nope", "Red", "yellow"]),
               "impossible_date": rng.choice(BAD_DATES[:5])}[cls]
        if cls == "text_for_number" and isinstance(arr(bad), list):
            return None       # arrays of texts for numbers are outside the modelled language
        key = P(*{"month": ("month", 2018, 3), "year": ("year", 2018), "day": ("day", 2018, 3, 4),
                  "week": ("week", 2018, 1, 1), "weekday": ("weekday", 2018, 1, 3),
                  "eternity": ("eternity",)}[v["unit"]])
        d[v["name"]] = {key.spellings()[0]: arr(bad)}
        return d
    if cls == "unparsable_period":
        vn = rng.choice(list(d))
        d[vn] = dict(d[vn])
        d[vn][rng.choice(BAD_PERIODS)] = arr(gen_array_value(rng, S.var[vn]))
        return d
    if cls == "mismatched_period":
        v = rng.choice([v for v in S.vars if v["unit"] != "eternity" and not v["end"]])
        key = mismatch_key(rng, v)
        if key is None or key == "month:2018-01:12":
            return None
        d[v["name"]] = {key: arr(gen_array_value(rng, v))}
        return d
    return None


ENTITY_CLASSES = ["unknown_entity", "unknown_variable", "other_entity_variable", "unknown_person",
                  "duplicate_membership", "too_many_role", "text_for_number", "unknown_enum",
                  "impossible_date", "unparsable_period", "mismatched_period"]
VARS_CLASSES = ["unknown_variable", "text_for_number", "unknown_enum", "impossible_date",
                "unparsable_period", "mismatched_period"]


def fixed_cases():
    """The inputs of the findings F8-F12 and of the defects found while building this check."""
    A = "A"
    out = []

    def case(kind, shape, docs, mut=None, sysn=A, meta=None):
        out.append({"sys": sysn, "kind": kind, "shape": shape, "docs": docs, "mut": mut, "meta": meta or {}})
    # F8: non-canonical spellings, one value per person
    case("spelling", "full", [
        {"persons": {"a": {"p_int_m": {"month:2018-01": 100}}, "b": {"p_int_m": {"month:2018-01": 200}}}},
        {"persons": {"a": {"p_int_m": {"2018-01": 100}}, "b": {"p_int_m": {"month:2018-01:1": 200}}}}])
    case("spelling", "full", [
        {"persons": {"a": {"p_date_e": {"eternity": "1980-01-01"}}, "b": {"p_date_e": {"Eternity": "1990-05-05"}}}},
        {"persons": {"a": {"p_date_e": {"ETERNITY": "1980-01-01"}}, "b": {"p_date_e": {"ETERNITY": "1990-05-05"}}}}])
    # F9 / F10: 10 months before 2 months in text order; integer amounts
    case("valid", "full", [{"persons": {"a": {"p_sal": {"month:2018-01:10": 10 * BASE, "month:2018-01:2": BASE}}}}])
    case("valid", "full", [{"persons": {"a": {"p_idiv": {"2018": 24 * BASE, "2018-01": BASE}}}}])
    # F11: variables-only, longer period first in the document
    case("valid", "vars", [{"p_sal": {"2018": 12 * BASE, "2018-01": 0}}])
    case("valid", "vars", [{"p_sal": {"2018": [12 * BASE, 24 * BASE], "2018-01": [0, BASE]}}])
    # F12 and the single-entity shortcut
    case("mutant", "full", [{"persons": {"a": {}}, "families": {}}], mut="unknown_entity")
    case("mutant", "short", [{"persons": {"a": {}}, "household": {"parents": ["a"]}, "families": {"f": {}}}],
         mut="unknown_entity")
    # persons left out of a group kind whose declared groups have values
    case("valid", "full", [{"persons": {"a": {}, "b": {}, "c": {}},
                            "households": {"h1": {"parents": ["a"], "h_rent": {"2018-01": 5}},
                                           "h2": {"parents": ["b"], "h_rent": {"2018-01": 7}}}}])
    # a person left out whose id is also the id of a declared group
    case("valid", "full", [{"persons": {"h1": {}, "b": {}, "c": {}}, "households": {"h1": {"parents": ["b", "c"]}}}])
    # variables with an end date: the period before it, starting exactly on it, and after it
    ends = {"p_end_d": {"2018-12-30": 20.0, "2018-12-31": 30.0, "2019-01-01": 40.0},
            "p_end_m": {"2018-05": 4, "2018-06": 5, "month:2018-07": 6}}
    case("valid", "full", [{"persons": {"a": ends, "b": {"p_end_d": {"day:2018-12-31": 3.0}}},
                            "households": {"h": {"parents": ["a", "b"],
                                                 "h_end_m": {"2018-12": 7, "2019-01": 8}}}}])
    case("valid", "short", [{"persons": {"a": ends}, "household": {"parents": ["a"], "h_end_m": {"2018-12": 7}}}])
    case("valid", "vars", [dict(ends)])
    # an enumeration with more members than a signed byte can index: declared values, defaults,
    # the default of the group made for a person left out, an axis
    case("valid", "full", [{"persons": {"a": {"p_big_e": {"ETERNITY": "d128"}, "p_big_m": {"2018-01": "d127"}},
                                        "b": {"p_big_e": {"eternity": "d149"}, "p_big_m": {"2018-02": "d129"}},
                                        "c": {}},
                            "households": {"h": {"parents": ["a", "b"], "h_big_y": {"2018": "d130"}}}}])
    bigax = {"persons": {"a": {"p_big_m": {"2018-01": "d002"}}, "b": {}},
             "households": {"h": {"parents": ["a", "b"]}},
             "axes": [[{"count": 3, "name": "p_big_m", "min": 127, "max": 129, "period": "2018-01", "index": 1}]]}
    case("axes", "full", [bigax] + expand_copies(SYSTEMS[A], bigax, bigax["axes"]), meta={"ordered": True})
    for mn, mx in ((2**24 + 1, 2**24 + 5), (2_000_000_001, 2_000_000_005)):
        bx = {"persons": {"a": {"p_int_m": {"2018-01": 3}}, "b": {}},
              "households": {"h": {"parents": ["a", "b"], "h_rent": {"2018-01": 2**24 + 1}}},
              "axes": [[{"count": 3, "name": "p_int_m", "min": mn, "max": mx, "period": "2018-01"},
                        {"count": 3, "name": "p_int_y", "min": mx, "max": mn, "period": "2018", "index": 1}]]}
        case("axes", "full", [bx] + expand_copies(SYSTEMS[A], bx, bx["axes"]), meta={"ordered": True})
    # the same situation after different histories of the system (left-out person, group input)
    hd = {"persons": {"a": {}, "b": {}, "c": {}},
          "households": {"h1": {"parents": ["a"], "h_rent": {"2018-01": 800}, "h_kind": {"ETERNITY": "blue"}}}}
    case("history", "full", [hd] * 6, meta={"modes": ["fresh", "used", "clone", "reform", "twice", "clone_fresh"]})
    # axes when the group declared last has no member
    ev = {"persons": {"a": {"p_int_m": {"2018-01": 3}}, "b": {}},
          "households": {"h1": {"parents": ["a"], "children": ["b"]}, "hV": {"h_rent": {"2018-01": 700}}},
          "axes": [[{"count": 3, "name": "p_int_m", "min": 0, "max": 4, "period": "2018-01"}]]}
    case("axes", "full", [ev] + expand_copies(SYSTEMS[A], ev, ev["axes"]), meta={"ordered": True})
    # weeks and week days whose ISO year is not the calendar year of their first day
    case("spelling", "full", [
        {"persons": {"a": {"p_int_w": {"week:2018-12-31": 5, "week:2014-12-29": 6},
                           "p_int_wd": {"weekday:2016-01-01": 7, "weekday:2021-01-03": 8}}}},
        {"persons": {"a": {"p_int_w": {"week:2019-01-02:1": 5, "week:2015-01-01": 6},
                           "p_int_wd": {"weekday:2016-01-01:1": 7, "weekday:2021-01-03:+1": 8}}}}])
    # axes with a spelled period, in the short form
    big = {"persons": {"a": {"p_int_m": {"2018-01": 3}}, "b": {}, "c": {}},
           "household": {"parents": ["a"], "children": ["b", "c"]},
           "axes": [[{"count": 3, "name": "p_int_m", "min": 0, "max": 4, "period": "month:2018-01"}]]}
    case("axes", "short", [big] + expand_copies(SYSTEMS[A], big, big["axes"]), meta={"ordered": True})
    return out


def generate(rng, tier):
    scale = {"quick": 1, "escalated": 3, "thorough": 12}[tier]
    cases = fixed_cases()

    def sysname():
        return rng.choice(["A", "A", "B"])
    # scale: more persons than a 16-bit index can count, no group declared (oracle only)
    for sysn in ("A", "B"):
        cases.append({"sys": sysn, "kind": "scale", "shape": "full", "n": rng.randint(33000, 40000),
                      "docs": [], "mut": None, "meta": {}})
    if tier != "quick":
        cases.append({"sys": "A", "kind": "scale", "shape": "full", "n": rng.randint(65600, 70000),
                      "docs": [], "mut": None, "meta": {}})
    # valid documents, all shapes
    for i in range(220 * scale):
        S = SYSTEMS[sysname()]
        shape = rng.choice(["full", "full", "short", "vars"])
        if shape == "vars":
            doc = render(gen_vars_doc(rng, S), rng, strict=True)
        else:
            doc = render(gen_entities_doc(rng, S, short=shape == "short")[0], rng)
        cases.append({"sys": S.name, "kind": "valid", "shape": shape_of(S, doc) if doc else shape,
                      "docs": [doc], "mut": None, "meta": {}})
    # spelling twins
    for i in range(150 * scale):
        S = SYSTEMS[sysname()]
        shape = rng.choice(["full", "full", "short", "vars"])
        if shape == "vars":
            a = gen_vars_doc(rng, S)
        else:
            a = gen_entities_doc(rng, S, short=shape == "short")[0]
        strict = shape == "vars"
        docs = [render(a, rng, strict=strict), render(a, rng, strict=strict)]
        if rng.random() < 0.5:
            docs.append(render(a, rng, canonical=True, strict=strict))
        cases.append({"sys": S.name, "kind": "spelling", "shape": shape, "docs": docs, "mut": None, "meta": {}})
    # histories: the same situation on a fresh system, a used one, a clone, a reform, built twice
    MODES = ["fresh", "used", "clone", "reform", "twice", "clone_fresh"]
    n_hist = 0
    guard = 0
    while n_hist < 25 * scale and guard < 2000:
        guard += 1
        S = SYSTEMS[sysname()]
        short = rng.random() < 0.2
        doc = render(gen_entities_doc(rng, S, short=short)[0], rng)
        d = normalise(S, doc)
        persons = list(d.get("persons", {}))
        # wanted: a group kind with a declared input and a person left out of it (not always)
        wanted = False
        for g in S.groups:
            inst = d.get(g.plural)
            if isinstance(inst, dict) and inst:
                rn = [r.get("plural") or r["key"] for r in S.roles(g.key)]
                placed = {p_ for f in inst.values() for k_ in rn for p_ in as_list(f.get(k_, []))}
                has_input = any(k_ not in rn for f in inst.values() for k_ in f)
                if has_input and any(p_ not in placed for p_ in persons):
                    wanted = True
        if not wanted and n_hist % 4 != 3:
            continue
        modes = ["fresh"] + rng.sample(MODES[1:], 3)
        if "clone" not in modes:
            modes[rng.randint(1, 3)] = "clone"
        cases.append({"sys": S.name, "kind": "history", "shape": "short" if short else "full",
                      "docs": [doc] * len(modes), "mut": None, "meta": {"modes": modes}})
        n_hist += 1
    # axes
    n_axes = 0
    while n_axes < 70 * scale:
        S = SYSTEMS[sysname()]
        c = gen_axes_case(rng, S)
        if c is not None:
            cases.append(c)
            n_axes += 1
    # mutants
    n_mut = 0
    guard = 0
    while n_mut < 400 * scale and guard < 6000 * scale:
        guard += 1
        S = SYSTEMS[sysname()]
        if rng.random() < 0.2:
            base = render(gen_vars_doc(rng, S), rng, strict=True)
            cls = rng.choice(VARS_CLASSES)
            m = mutate_vars(rng, S, base, cls)
            shape = "vars"
        else:
            short = rng.random() < 0.25
            base = render(gen_entities_doc(rng, S, short=short)[0], rng)
            cls = ENTITY_CLASSES[n_mut % len(ENTITY_CLASSES)]
            m = mutate_entities(rng, S, base, cls)
            shape = "short" if short else "full"
        if m is None:
            continue
        strings = all_strings(m, set())
        if not all(printable(s) for s in strings):
            continue
        cases.append({"sys": S.name, "kind": "mutant", "shape": shape, "docs": [m], "mut": cls, "meta": {}})
        n_mut += 1
    return cases


def neighbours(c, rng):
    out = []
    if len(c["docs"]) > 1:
        for d in c["docs"]:
            out.append({**c, "kind": "valid" if c["kind"] != "mutant" else "mutant", "docs": [d]})
    return out
