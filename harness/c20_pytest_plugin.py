"""pytest plugin used by harness/c20.py (loaded through PYTEST_PLUGINS while
openfisca_core.tools.test_runner.run_tests runs): records, per YAML test, the exception
its runtest raised (None when it passed)."""
import pytest

RESULTS = []


@pytest.hookimpl(hookwrapper=True)
def pytest_runtest_makereport(item, call):
    yield
    if call.when == "call":
        test = getattr(item, "test", None)
        name = getattr(test, "name", None)
        RESULTS.append((name, None if call.excinfo is None else call.excinfo.value))
